"""C14 -- function-term mode prints the same program with foreign keys wrapped."""
import os
import re
import shutil
import subprocess

import common
import impl
import stream
import aspast
from common import Report, coq_str

MAIN = os.path.join(common.REPO, 'src', 'main.py')


def cli_output(idx, text, flags):
    """stdout of the command line on a file holding `text` (None when it fails)"""
    d = os.path.join(common.WORK, 'c14cli%d' % idx)
    os.makedirs(d, exist_ok=True)
    try:
        inp = os.path.join(d, 'in.cnl')
        open(inp, 'w').write(text)
        env = dict(os.environ, PYTHONHASHSEED='0')
        env.pop('PYTHONPATH', None)
        p = subprocess.run([common.PY, MAIN] + flags + [inp], stdout=subprocess.PIPE, stderr=subprocess.PIPE, text=True, timeout=600, env=env, cwd=d)
        return p.stdout if p.returncode == 0 else None
    finally:
        shutil.rmtree(d, ignore_errors=True)

PID = 'C14'
PRE = 'Require Import Cnl2aspV.Gen.Operators Cnl2aspV.Asp.Syntax Cnl2aspV.Asp.Print Cnl2aspV.Asp.PrintCases.'


def compare_modes(flat, fn):
    """-> None or a description of the first difference after flattening the function terms of the -p output"""
    try:
        sf = [s for s in aspast.parse(flat)]
        sn = [s for s in aspast.parse(fn)]
    except aspast.ParseError as e:
        return 'unparsable: %s' % e
    if len(sf) != len(sn):
        return 'different number of statements (%d vs %d)' % (len(sf), len(sn))
    shapes = {}
    for a, b in zip(sf, sn):
        af, an = aspast.atoms_of(a), aspast.atoms_of(b)
        if len(af) != len(an):
            return 'different number of atoms in %s / %s' % (a, b)
        for x, y in zip(af, an):
            if x.name != y.name:
                return 'predicate %s vs %s' % (x.name, y.name)
            fx = [str(t) for t in x.arguments]
            fy = []
            for t in y.arguments:
                fy += aspast.flatten_term(t)
            if fx != fy:
                return 'atom %s prints as %s with functions: flattening gives %r, the default program has %r' % (x, y, fy, fx)
            sh = aspast.shape_term(y)
            if shapes.setdefault(y.name, sh) != sh:
                return 'predicate %s has two shapes in function-term mode: %r and %r' % (y.name, shapes[y.name], sh)
    # an entity written as the counted value of an aggregate ('the number of booking occurrences') is a term of the same predicate:
    # same flattening, same shape
    for a, b in zip(sf, sn):
        tf, tn = aspast.tuple_terms_of(a), aspast.tuple_terms_of(b)
        if len(tf) != len(tn):
            # a term that becomes nested only in function-term mode is still a function term in both modes (it has arguments in both)
            return 'different number of entity terms in aggregate tuples in %s / %s' % (a, b)
        for x, y in zip(tf, tn):
            if x.name != y.name:
                return 'aggregate tuple term %s vs %s' % (x, y)
            fx = [str(t) for t in x.arguments]
            fy = []
            for t in y.arguments:
                fy += aspast.flatten_term(t)
            if fx != fy:
                return 'aggregate tuple term %s prints as %s with functions: flattening gives %r, the default program has %r' % (x, y, fy, fx)
            sh = aspast.shape_term(y)
            if y.name in shapes and shapes[y.name] != sh:
                return 'predicate %s has two shapes in function-term mode: %r as an atom and %r as the counted term of an aggregate' % (y.name, shapes[y.name], sh)
    return None


def nonadjacent_same_concept(text):
    """the trigger of F-C14-nonadjacent-group-reordered: a declaration whose keys name the same concept twice with another key in between
    ('identified by a team, and by a day, and by a team')"""
    for l in text.split('\n'):
        if ' is identified by ' not in l:
            continue
        keys = re.findall(r'(?:identified by|and by) an? (\w+)', l.split(', and has')[0])
        for i, k in enumerate(keys):
            for j in range(i + 2, len(keys)):
                if keys[j] == k and any(x != k for x in keys[i + 1:j]):
                    return True
    return False


def late_concept_attribute(text, diff):
    """the trigger of F-C14-attribute-named-after-later-concept: a concept X is defined on a line AFTER a declaration that gives
    another concept an attribute named X, and the two shapes differ by a term named X"""
    lines = text.split('\n')
    for i, l in enumerate(lines):
        m = re.match(r'\s*An? (\w+) (?:is identified|is one of|is a temporal concept|goes from|ranges from)', l)
        if not m:
            continue
        x = m.group(1).lower()
        if ("'%s'" % x) not in diff:
            continue
        for e in lines[:i]:
            if re.search(r'is identified by .*\b(?:has|and) an? %s\b' % re.escape(x), e) or re.search(r'is identified by .*\bby an? %s\b' % re.escape(x), e):
                return True
    return False


def run(tier, seed):
    rep = Report(PID, tier, seed)
    findings = {f['id']: f for f in common.load_findings(PID) if f.get('status') == 'known'}
    proof = common.build_property(PID, extra=['Asp/PrintCases.vo'])
    specs = stream.specs(tier, seed)
    res = stream.objects_many([t for _, t, _ in specs])
    cases, meta = [], []
    stats = dict(rejected=0, unserialisable=0, nonascii=0, wrapped_atoms=0, atoms=0)
    for (name, text, _), r in zip(specs, res):
        if r[0] == 'rejected':
            stats['rejected'] += 1
            continue
        if r[0] != 'ok':
            stats['unserialisable' if r[0] == 'unserialisable' else 'nonascii'] += 1
            rep.notes.append('%s: %s %s' % (name, r[0], r[1]))
            continue
        _, term, flat, fn, st = r
        rep.case(text)
        stats['atoms'] += st['atoms']
        if fn != flat:
            stats['wrapped_atoms'] += 1
        cases.append('{| pc_enc := %s; pc_flat := %s; pc_fn := %s |}' % (term, coq_str(flat), coq_str(fn)))
        meta.append(dict(name=name, text=text, flat=flat, fn=fn))
        d = compare_modes(flat, fn)
        if d and 'two shapes' in d and 'F-C14-attribute-named-after-later-concept' in findings and late_concept_attribute(text, d):
            rep.known_finding('F-C14-attribute-named-after-later-concept', findings['F-C14-attribute-named-after-later-concept']['summary'])
        elif d and 'flattening gives' in d and 'F-C14-nonadjacent-group-reordered' in findings and nonadjacent_same_concept(text):
            rep.known_finding('F-C14-nonadjacent-group-reordered', findings['F-C14-nonadjacent-group-reordered']['summary'])
        elif d:
            rep.violation('function-term mode is not the default program with wrapped groups: ' + d, dict(text=text, default=flat, with_functions=fn))
    # the command-line option must select the same mode as the API flag
    wrapped = [m for m in meta if m['fn'] != m['flat']]
    cli_sel = [m for m in wrapped if m['name'].startswith('regressions/c14_')] + wrapped[:(6 if tier == 'thorough' else 2)]
    for k, m in enumerate(cli_sel):
        for flag in ('-p', '--print-with-functions'):
            out = cli_output(k, m['text'], [flag])
            rep.evaluations += 1
            # (the implementation prints its 'Warning: ...' lines on the same stream, before the program)
            prog_out = None if out is None else '\n'.join(l for l in out.split('\n') if not l.startswith('Warning: '))
            if prog_out is None or impl.norm_uuid(prog_out).strip() != impl.norm_uuid(m['fn']).strip():
                rep.violation('the command line option %s does not print the function-term program' % flag,
                              dict(text=m['text'], option=flag, command_line_output=out, function_term_program=m['fn'], default_program=m['flat']))
                break
    rep.cov['command_line_runs'] = 2 * len(cli_sel)
    rep.sample(dict(text=meta[0]['text'], with_functions=meta[0]['fn']))
    for m in meta:
        if m['fn'] != m['flat'] and m['name'].startswith('wide'):
            rep.sample(dict(text=m['text'], with_functions=m['fn']))
            break
    tie_broken = []
    if proof['ok'] or proof['extra_ok']:
        f1 = common.run_cases(PID, 'flat', PRE, cases, 'flat_ok', shard=40)
        f2 = common.run_cases(PID, 'fn', PRE, cases, 'fn_ok', shard=40)
        if f1:
            tie_broken.append('default-mode printer model differs from the implementation on %d programs, first: %s' % (len(f1), meta[f1[0]]['name']))
        if f2:
            tie_broken.append('function-mode printer model differs from the implementation on %d programs, first: %s' % (len(f2), meta[f2[0]]['name']))
        first = meta[(f1 or f2)[0]] if (f1 or f2) else None
    if not proof['ok']:
        tie_broken.append('theorem file does not build: %s' % proof['failed_at'])
        first = None
    if proof['bad']:
        tie_broken.append('forbidden tokens: %r' % proof['bad'])
    if tie_broken and not rep.violations:
        rep.violation('proof obligation or correspondence no longer checks and no failing input was found: ' + ' | '.join(tie_broken),
                      dict(kind='broken-tie', theorem='Props/C14.v / printer correspondence', details=tie_broken, first_differing_input=first,
                           searched='%d programs in both modes, flattened and compared atom by atom with clingo.ast' % len(cases)), no_input=True)
    elif tie_broken:
        rep.notes.extend(tie_broken)
    rep.cov.update(programs=len(cases), programs_with_wrapped_terms=stats['wrapped_atoms'], atoms_printed=stats['atoms'],
                   inputs_rejected_by_compiler=stats['rejected'], unserialisable=stats['unserialisable'])
    rep.assumptions += ['clingo.ast parses both outputs (the oracle flattens every function term in atom arguments)',
                        'inflect results are read from the NameComponent objects of the tree (not re-computed by the model)']
    return rep.finish(proof, rule='corpus (examples, test inputs) + wide generator; each compiled once, its element tree printed in both modes by '
                                  'implementation and model; distinct by specification text')
