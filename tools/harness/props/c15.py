"""C15 -- model explanations state exactly the model."""
import io
import contextlib
import random
import re
import multiprocessing as mp

import clingo

import common
import impl
import stream
import solve
from common import Report, coq_str, coq_list, coq_opt

PID = 'C15'
PRE = 'Require Import Cnl2aspV.Asp.Syntax Cnl2aspV.Explain.Explain Cnl2aspV.Explain.ExplainCases.'


def ser_name(nc):
    return '{| on_name := %s; on_forms := %s |}' % (coq_str(nc.name), coq_list([coq_str(f) for f in nc.singular_and_plural_name]))


def ser_origin(o):
    links = []
    while o is not None:
        links.append(ser_name(o.name))
        o = o.origin
    return coq_list(links)


def ser_attr(a):
    return '{| x_name := %s; x_origin := %s; x_value := %s |}' % (ser_name(a._name), ser_origin(a.origin), coq_str(str(a.value)))


def ser_entity(e):
    return '{| xe_name := %s; xe_keys := %s; xe_attrs := %s |}' % (ser_name(e._name), coq_list([ser_attr(a) for a in e.keys]), coq_list([ser_attr(a) for a in e.attributes]))


def ser_sig(s):
    return '{| sg_entity := %s; sg_subjects := %s; sg_verb := %s; sg_objects := %s |}' % (
        ser_entity(s.new_entity), coq_list([ser_entity(x) for x in s.subject]), coq_opt(None if s.verb is None else coq_str(str(s.verb))),
        coq_list([ser_entity(x) for x in (s.objects or [])]))


def _job(args):
    text, cap = args
    from cnl2asp.cnl2asp import Cnl2asp
    from cnl2asp.ASP_elements.solver.clingo_result_parser import ClingoResultParser
    out = io.StringIO()
    try:
        with contextlib.redirect_stdout(out):
            r = impl.compile_text(text)
            if r[0] != 'ok' or '&tel' in r[1] or '#program' in r[1]:
                return None
            try:
                models = solve.answer_sets(r[1], limit=cap)
            except solve.SolveError:
                return None
            res = []
            for m in models:
                atoms = sorted(m)
                rp = ClingoResultParser(Cnl2asp(text).parse_input())
                rp._get_new_knowledge()
                sigs = {s.new_entity.get_name(): ser_sig(s) for s in rp._signatures}
                nsub = {s.new_entity.get_name(): len(s.subject) for s in rp._signatures}
                onames = {str(s.new_entity.get_name()): ([str(x.get_name()) for x in (s.subject or [])], [str(x.get_name()) for x in (s.objects or [])])
                          for s in rp._signatures}
                per = []
                for a in atoms:
                    sym = clingo.parse_term(a)
                    if sym.name in rp.target_predicates:
                        try:
                            sent = rp._clingo_symbol_to_sentence(sym)
                        except Exception as e:  # noqa
                            sent = 'EXC %s: %s' % (type(e).__name__, e)
                        per.append((a, sym.name, [str(x) for x in sym.arguments], sent))
                    else:
                        per.append((a, sym.name, None, None))
                rp2 = ClingoResultParser(Cnl2asp(text).parse_input())
                whole = rp2.parse_model(list(atoms))
                from cnl2asp.specification.signaturemanager import SignatureManager
                keyn = {str(sg.get_name()): len(sg.keys) for sg in SignatureManager.signatures}
                res.append((per, sigs, nsub, whole, list(rp.target_predicates), keyn, onames))
        return (r[1], res)
    except Exception as e:  # noqa
        return ('harness-error', '%s: %s' % (type(e).__name__, e))


CHAIN = """A cell is identified by an id.

The following propositions always apply:
A cell goes from 0 to %d.

The following propositions apply in the initial state:
Cell 0 is marked.

The following propositions always apply except in the initial state:
Cell X is marked when cell Y is previously marked, where X is equal to Y+1.

The following propositions apply in the final state:
It is required that cell %d is marked.
"""


def _tjob(text):
    """telingo trace of a temporal specification, its explanation, and the sentence of every target atom on its own"""
    import re
    from cnl2asp.cnl2asp import Cnl2asp
    from cnl2asp.ASP_elements.solver.telingo_wrapper import Telingo
    from cnl2asp.ASP_elements.solver.telingo_result_parser import TelingoResultParser
    out = io.StringIO()
    import os
    os.dup2(os.open(os.devnull, os.O_WRONLY), 1)      # the solver's own status lines (written below Python) are not part of the result
    try:
        with contextlib.redirect_stdout(out):
            r = impl.compile_text(text)
            if r[0] != 'ok' or '#program' not in r[1]:
                return None
            t = Telingo()
            t.load(r[1])
            res = t.solve(time_limit=60)
            states = []
            for line in res.split('\n'):
                m = re.match(r'^\s*State (\d+):\s*$', line)
                if m:
                    states.append((int(m.group(1)), []))
                elif states and line.strip() and not re.match(r'^(SATISFIABLE|UNSATISFIABLE|UNKNOWN|OPTIMUM FOUND|Answer: \d+)\s*$', line.strip()):
                    states[-1][1].extend(x for x in line.split(' ') if x)
            if not states:
                return ('no-trace', r[1], res[-300:])
            rp = TelingoResultParser(Cnl2asp(text).parse_input())
            expl = rp.parse_model(res)
            rp1 = ClingoResultParserFresh(text)
            per = {}
            for _, atoms in states:
                for a in atoms:
                    sym = clingo.parse_term(a)
                    if sym.name in rp1.target_predicates and a not in per:
                        per[a] = rp1._clingo_symbol_to_sentence(sym)
        return ('ok', r[1], states, expl, per, sorted(rp1.target_predicates))
    except Exception as e:  # noqa
        return ('harness-error', '%s: %s' % (type(e).__name__, e))


def ClingoResultParserFresh(text):
    from cnl2asp.cnl2asp import Cnl2asp
    from cnl2asp.ASP_elements.solver.clingo_result_parser import ClingoResultParser
    rp = ClingoResultParser(Cnl2asp(text).parse_input())
    rp._get_new_knowledge()
    return rp


def traces(rep, tier):
    """every state of a telingo trace is explained under its own heading, with one sentence per atom of a defined concept of that state"""
    import corpus
    texts = [CHAIN % (11, 11), CHAIN % (3, 3), CHAIN % (21, 21) if tier == 'thorough' else CHAIN % (10, 10)]
    texts += [t for n, t in corpus.load() if 'The following propositions' in t and len(t) < 6000][:(12 if tier == 'thorough' else 4)]
    with mp.get_context('fork').Pool(min(8, len(texts))) as pool:
        res = pool.map(_tjob, texts)
    n_tr = n_states = 0
    for text, r in zip(texts, res):
        if r is None or r[0] == 'no-trace':
            continue
        if r[0] == 'harness-error':
            rep.notes.append('trace explanation not observed: ' + r[1][:200])
            continue
        _, prog, states, expl, per, targets = r
        rep.case(('trace', text))
        n_tr += 1
        n_states += len(states)
        sections = []
        for line in expl.split('\n'):
            if line.startswith('-- In the '):
                sections.append((line, []))
            elif line.strip() and sections:
                sections[-1][1].append(line)
        info = dict(text=text, program=prog, states=[(n, a[:8]) for n, a in states][:14], explanation=expl[-1500:])
        want_h = ['-- In the %d state:' % n for n, _ in states]
        if [h for h, _ in sections] != want_h:
            rep.violation('the state headings of the explanation %r are not the states of the trace %r' % ([h for h, _ in sections][:14], want_h[:14]), info)
            continue
        for (n, atoms), (_, sents) in zip(states, sections):
            want = sorted(per[a] for a in atoms if a in per)
            if sorted(sents) != want:
                rep.violation('state %d of the trace is not explained by exactly one sentence per atom of a defined concept' % n,
                              dict(info, state=n, atoms=atoms[:20], sentences=sents[:20], expected=want[:20]))
                break
    rep.cov.update(traces_explained=n_tr, trace_states=n_states)
    rep.evaluations += n_states


def run(tier, seed):
    rep = Report(PID, tier, seed)
    proof = common.build_property(PID, extra=['Explain/ExplainCases.vo'])
    findings = {f['id']: f for f in common.load_findings(PID) if f.get('status') == 'known'}
    specs = stream.specs(tier, seed, n_quick=60, n_thorough=600)
    cap = 20 if tier == 'thorough' else 4
    impl.compile_text('A warmupconcept is identified by an id.')
    with mp.get_context('fork').Pool(14) as pool:
        res = pool.map(_job, [(t, cap) for _, t, _ in specs], chunksize=4)
    cases, meta = [], []
    st = dict(programs=0, answer_sets=0, target_atoms=0, other_atoms=0, readback=0, readback_skipped=0)
    readback_jobs = []
    strict_jobs, strict_fail = [], []
    for (name, text, sents), r in zip(specs, res):
        if r is None:
            continue
        if r[0] == 'harness-error':
            rep.notes.append('%s: %s' % (name, r[1]))
            continue
        prog, models = r
        st['programs'] += 1
        rep.case(text)
        for per, sigs, nsub, whole, targets, keyn, onames in models:
            st['answer_sets'] += 1
            seen = {}
            lines = [l for l in whole.split('\n') if l.strip()]
            exp_lines = []
            atoms_by_pred = {}
            for atom, _, _, _ in per:
                m_ = re.match(r'^([a-z_][A-Za-z0-9_]*)\((.*)\)$', atom)
                if m_ and '(' not in m_.group(2):
                    atoms_by_pred.setdefault(m_.group(1), []).append([x.strip().strip('"') for x in m_.group(2).split(',')])
            for atom, pred, args, sent in per:
                if args is None:
                    st['other_atoms'] += 1
                    continue
                st['target_atoms'] += 1
                info = dict(text=text, atom=atom, sentence=sent)
                exp_lines.append(sent)
                if sent.startswith('EXC '):
                    rep.violation('explaining an atom of a defined concept raises', info)
                    continue
                if sent in seen and seen[sent] != atom:
                    rep.violation('two different atoms have the same explanation', dict(info, other_atom=seen[sent]))
                seen[sent] = atom
                plain_args = [v.strip('"') for v in args]
                for v in args:
                    vv = v.strip('"')
                    # a value that is the argument of several positions (a loop edge connected_to(1,1)) is named once per position
                    if vv not in sent or (vv and sent.count(vv) < plain_args.count(vv)):
                        rep.violation('the explanation does not mention the argument value %s%s' % (v, '' if vv not in sent else ' once for each of the %d positions that hold it' % plain_args.count(vv)), info)
                        break
                words = pred.replace('_', ' ')
                if words.lower() not in sent.lower():
                    rep.violation('the explanation does not name the concept', info)
                # every concept the relation's sentence was defined with (subject and objects) is named in the explanation
                subj_names, obj_names = onames.get(pred, ([], []))
                subj_names = [c_ for c_ in subj_names if c_]
                if subj_names and not any(c_.lower() in sent.lower() for c_ in subj_names):
                    rep.violation('the explanation of a %s atom names none of its possible subject concepts %r' % (pred, subj_names), info)
                for cn in obj_names:
                    if cn and cn.lower() not in sent.lower():
                        rep.violation('the explanation of a %s atom does not name the object concept %s' % (pred, cn), info)
                        break
                # the subject the sentence starts with must be an individual of the answer set: '<Concept> ... <verb> ...' for an atom of
                # another predicate requires an atom of <concept> whose arguments are a contiguous part of the explained atom's arguments
                fw = sent.split()[0].lower() if sent.split() else ''
                if fw != pred and fw in atoms_by_pred:
                    plain = [a.strip('"') for a in args]
                    ok_subject = False
                    for cargs in atoms_by_pred[fw]:
                        k = keyn.get(fw, len(cargs)) or len(cargs)
                        cargs = cargs[:k]
                        if any(plain[i:i + k] == cargs for i in range(len(plain) - k + 1)):
                            ok_subject = True
                            break
                    if not ok_subject:
                        rep.violation('the explanation names as subject a %s that is not in the answer set' % fw, dict(info, atoms_of_that_concept=atoms_by_pred[fw][:6]))
                if all(ord(c) < 128 for c in sent + atom):
                    cases.append('{| xc_sig := %s; xc_args := %s; xc_out := %s |}' % (sigs[pred], coq_list([coq_str(a) for a in args]), coq_str(sent)))
                    meta.append(info)
            # exactly one sentence per target atom, none for the others (parse_model output)
            if sorted(lines) != sorted(exp_lines):
                rep.violation('parse_model does not print exactly one sentence per atom of a defined concept',
                              dict(text=text, explanation=whole, atoms=[p[0] for p in per]))
            declared = set(re.findall(r'^An? (\w+) is identified by', text, re.M))
            dsel = [(a, sn) for a, pd, ar, sn in per if ar is not None and pd in declared and sn and not sn.startswith('EXC')]
            if dsel and all(ord(c) < 128 for a, sn in dsel for c in sn):
                dl = [l for l in text.split('\n') if re.match(r'^An? \w+ is identified by', l)]
                strict_jobs.append((name, text, '\n'.join(dl + [sn for _, sn in dsel]) + '\n', sorted(a for a, _ in dsel), declared))
            # read-back for wide-generator specifications (every concept is declared)
            if sents is not None and lines:
                decls = [s['text'] for s in sents if s['kind'] == 'declaration']
                readback_jobs.append((text, '\n'.join(decls + lines) + '\n', sorted(a for a, p, ar, s in per if ar is not None), targets))
    # strict read-back for declared concepts: declarations + the sentences of the atoms of declared concepts must compile to a program
    # whose single answer set holds exactly those atoms
    if strict_jobs:
        sel = [j for j in strict_jobs if j[0].startswith('regressions/c15_')] + [j for j in strict_jobs if not j[0].startswith('regressions/c15_')]
        sel = sel[:(300 if tier == 'thorough' else 50)]
        sres = impl.compile_many([j[2] for j in sel])
        st['strict_readback'] = 0
        for (name, text, rtext, atoms, preds), r in zip(sel, sres):
            info = dict(text=text, explanation_read_back=rtext, atoms=atoms[:20])
            st['strict_readback'] += 1
            if r[0] != 'ok':
                strict_fail.append(('the explanation of the atoms of declared concepts is rejected when read back under the same declarations', dict(info, result=list(r[:3]))))
                continue
            try:
                ms = solve.answer_sets(r[1], limit=3)
            except solve.SolveError as e:
                strict_fail.append(('the explanation of the atoms of declared concepts, read back, is rejected by clingo', dict(info, program=r[1], error=str(e)[:200])))
                continue
            got = [sorted(a for a in m if a.split('(')[0] in preds) for m in ms]
            if len(ms) != 1 or got[0] != atoms:
                strict_fail.append(('reading the explanation back does not give exactly the explained atoms of the declared concepts', dict(info, program=r[1], got=got[:2])))
    # read-back
    rb = impl.compile_many([j[1] for j in readback_jobs[:(400 if tier == 'thorough' else 60)]])
    for (text, rtext, atoms, targets), r in zip(readback_jobs, rb):
        if r[0] != 'ok':
            st['readback_skipped'] += 1
            continue
        try:
            ms = solve.answer_sets(r[1], limit=3)
        except solve.SolveError:
            st['readback_skipped'] += 1
            continue
        st['readback'] += 1
        got = [sorted(a for a in m if a.split('(')[0] in targets) for m in ms]
        if len(ms) != 1 or got[0] != atoms:
            if 'F-C15-readback' in findings:
                rep.known_finding('F-C15-readback', findings['F-C15-readback']['summary'])
            else:
                rep.cov.setdefault('readback_mismatches', []).append(dict(explanation=rtext[-600:], expected=atoms[:12], got=got[:1]))
    rep.cov['strict_readback_failures'] = len(strict_fail)
    nsv = 0
    for what, info in strict_fail:
        sents_ = [l for l in info['explanation_read_back'].split('\n') if l and not re.match(r'^An? \w+ is identified by', l)]
        vals = [v for a in info['atoms'] for v in re.findall(r'[(,]("(?:[^"\\]|\\.)*"|[^,()]+)', a)]
        if 'F-C15-readback-value-not-a-word' in findings and any(not re.match(r'^("[a-z][a-z0-9_]*"|-?\d+|[a-z][A-Za-z0-9_]*)$', v) for v in vals):
            # trigger: an explained value is a quoted string that is not a lower-case word (blank, upper-case initial, punctuation)
            rep.known_finding('F-C15-readback-value-not-a-word', findings['F-C15-readback-value-not-a-word']['summary'])
        elif 'F-C15-readback-declared-concept-as-relation' in findings and any(not l.startswith('There is ') for l in sents_):
            # trigger: the atom of a DECLARED concept is explained with a subject-verb sentence instead of 'There is <concept> ...'
            rep.known_finding('F-C15-readback-declared-concept-as-relation', findings['F-C15-readback-declared-concept-as-relation']['summary'])
        else:
            nsv += 1
            if nsv <= 2:
                rep.violation(what, info)
    if meta:
        rep.sample(meta[0]); rep.sample(meta[len(meta) // 2])
    tie_broken = []
    if proof['ok'] or proof['extra_ok']:
        f = common.run_cases(PID, 'expl', PRE, cases, 'xcase_ok', shard=300)
        nm = common.run_cases(PID, 'explm', PRE, cases, 'xcase_modelled', shard=300)
        rep.cov['sentences_outside_model'] = len(nm)
        # the closed form of the theorem (facts of declared concepts) directly against the implementation's sentences, and how many
        # observed atoms the theorem speaks about
        out_scope = common.run_cases(PID, 'scope', PRE, cases, 'xcase_fact_scope', shard=300)
        cf = common.run_cases(PID, 'closed', PRE, cases, 'xcase_closed_form_ok', shard=300)
        rep.cov['atoms_in_scope_of_closed_form_theorem'] = len(cases) - len(out_scope)
        if cf:
            tie_broken.append('the closed form of C15_fact_sentence_closed_form_partial differs from the implementation on %d atoms, first: %r' % (len(cf), meta[cf[0]]))
        if f:
            tie_broken.append('explanation model differs from the implementation on %d atoms, first: %r' % (len(f), meta[f[0]]))
    if not proof['ok']:
        tie_broken.append('theorem file does not build: %s' % proof['failed_at'])
    if proof['bad']:
        tie_broken.append('forbidden tokens: %r' % proof['bad'])
    if tie_broken and not rep.violations:
        rep.violation('proof obligation or correspondence no longer checks and no failing input was found: ' + ' | '.join(tie_broken),
                      dict(kind='broken-tie', theorem='Props/C15.v / explanation correspondence', details=tie_broken,
                           searched='%d atoms of %d answer sets' % (st['target_atoms'], st['answer_sets'])), no_input=True)
    elif tie_broken:
        rep.notes.extend(tie_broken)
    rep.evaluations += st['target_atoms']
    rep.cov.update(st, model_cases=len(cases))
    traces(rep, tier)
    rep.assumptions += ['clingo enumerates the answer sets (bounded number per program)', 'signature records are read from ClingoResultParser._signatures after _get_new_knowledge()']
    return rep.finish(proof, rule='corpus + wide generator (non-temporal), up to %d answer sets each; every atom of every answer set; distinct by specification' % cap)
