(* Checking a boolean predicate on every integer of an interval, by binary recursion on the interval length
   (no unary numbers), with the lemma that lifts the computed `true` to a universally quantified statement. *)
Require Import Coq.ZArith.ZArith Coq.Bool.Bool Lia.
Open Scope Z_scope.

Fixpoint range_check (f : Z -> bool) (start : Z) (len : positive) : bool :=
  match len with
  | xH => f start
  | xO p => range_check f start p && range_check f (start + Zpos p) p
  | xI p => range_check f start p && range_check f (start + Zpos p) p && f (start + Zpos p + Zpos p)
  end.

Lemma range_check_sound f len : forall start,
  range_check f start len = true -> forall z, start <= z < start + Zpos len -> f z = true.
Proof.
  induction len as [p IH|p IH|]; intros start H z Hz; simpl in H.
  - apply andb_true_iff in H as [H H3]. apply andb_true_iff in H as [H1 H2].
    destruct (Z_lt_ge_dec z (start + Zpos p)) as [Hlt|Hge]; [apply (IH start H1); lia|].
    destruct (Z_lt_ge_dec z (start + Zpos p + Zpos p)) as [Hlt2|Hge2]; [apply (IH _ H2); lia|].
    assert (z = start + Zpos p + Zpos p) by lia. subst. exact H3.
  - apply andb_true_iff in H as [H1 H2].
    destruct (Z_lt_ge_dec z (start + Zpos p)) as [Hlt|Hge]; [apply (IH start H1); lia|apply (IH _ H2); lia].
  - assert (z = start) by lia. subst. exact H.
Qed.
