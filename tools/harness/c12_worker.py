"""Executes a history of API calls in ONE process and prints the canonical result of the last call (JSON on stdout).
stdin: JSON {"with_functions": bool, "calls": [[api, text], ...]}"""
import io
import json
import sys
import contextlib
import os

sys.path.insert(0, os.path.dirname(os.path.abspath(__file__)))
import impl  # noqa: E402
from cnl2asp.cnl2asp import Cnl2asp  # noqa: E402
from cnl2asp.utility.utility import Utility  # noqa: E402


def call(api, text, obj=None):
    out = io.StringIO()
    try:
        with contextlib.redirect_stdout(out):
            c = obj if obj is not None else Cnl2asp(text)
            if api == 'compile':
                r = c.compile()
            elif api == 'compile_nolink':
                r = c.compile(auto_link_entities=False)
            elif api == 'get_symbols':
                r = repr(c.get_symbols())
            elif api == 'check_syntax':
                r = repr(c.check_syntax())
            elif api == 'cnl_to_json':
                r = json.dumps(c.cnl_to_json())
            else:
                raise ValueError(api)
        return ['ok', impl.norm_uuid(r)]
    except Exception as e:  # noqa
        if hasattr(e, 'line') and hasattr(e, 'column') and type(e).__module__.startswith('lark'):
            # the text of Lark's own syntax errors lists the expected terminals in set order (Lark's, hash-seed dependent):
            # the failure is identified by its class and position
            return ['err', type(e).__name__, 'line %s column %s' % (e.line, e.column)]
        return ['err', type(e).__name__, impl.norm_uuid(str(e))]


def main():
    job = json.load(sys.stdin)
    Utility.PRINT_WITH_FUNCTIONS = bool(job.get('with_functions'))
    res = None
    objs = [None] * len(job['calls'])
    if job.get('construct_first'):
        # every object exists before the first call is made (the constructor must not be where state is reset)
        for i, (api, text) in enumerate(job['calls']):
            try:
                with contextlib.redirect_stdout(io.StringIO()):
                    objs[i] = Cnl2asp(text)
            except Exception:
                objs[i] = None
    for i, (api, text) in enumerate(job['calls']):
        res = call(api, text, objs[i])
    print(json.dumps(res))


if __name__ == '__main__':
    main()
