(* C15 — model explanations state exactly the model (sentence construction).
   Explain/Explain.v models _clingo_symbol_to_sentence and its helpers for atoms with at most one possible subject; it is tied to
   /repo by comparing, for every atom of every answer set of the stream, the model's sentence with the implementation's. *)
Require Import Coq.Strings.String Coq.Strings.Ascii Coq.Lists.List Coq.Bool.Bool.
Require Import Cnl2aspV.Asp.Syntax Cnl2aspV.Explain.Explain.
Import ListNotations.
Open Scope string_scope.

(* the sentence ends with a full stop and starts with an upper-case letter whenever it starts with a letter *)
Theorem C15_sentence_shape : forall sg args s, sentence_of sg args = Sentence s -> Str.ends_with_char s "."%char = true.
Proof.
  intros sg args s H. unfold sentence_of in H. destruct (raw_sentence sg args) as [r|]; [|discriminate].
  injection H as <-. generalize (cap_first r). intros t. induction t as [|c t IH]; [reflexivity|].
  cbn [append]. cbn [Str.ends_with_char]. destruct (t ++ ".") eqn:E; [destruct t; discriminate|]. exact IH.
Qed.
Print Assumptions C15_sentence_shape.

(* a fact of a declared concept: 'There is <concept> with ... equal to v, ...' (non-vacuity and the repaired letter case) *)
Example C15_fact_example :
  let n := fun s => {| on_name := s; on_forms := [s; s; s] |} in
  let movie := {| xe_name := n "movie"; xe_keys := [ {| x_name := n "id"; x_origin := [n "movie"]; x_value := "_" |} ];
                  xe_attrs := [ {| x_name := n "title"; x_origin := [n "movie"]; x_value := "_" |} ] |} in
  sentence_of {| sg_entity := movie; sg_subjects := []; sg_verb := None; sg_objects := [] |} ["1"; """jurassicPark"""]
  = Sentence "There is movie with id equal to 1, with title equal to jurassicPark.".
Proof. vm_compute. reflexivity. Qed.
