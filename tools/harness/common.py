"""Shared machinery: paths, Coq build of a property's cone, cases.v evaluation,
evidence files, known findings, violation reporting."""
import hashlib
import json
import os
import re
import subprocess
import sys
import time

VERIF = os.path.dirname(os.path.dirname(os.path.dirname(os.path.abspath(__file__))))
COQ = os.path.join(VERIF, 'coq')
WORK = os.path.join(VERIF, '.work')
REPLAYS = os.path.join(VERIF, 'replays')
EVID = os.path.join(VERIF, 'evidence')
REPO = os.environ.get('VERIF_REPO', '/repo')
PY = '/venv/bin/python'
LOGICAL = 'Cnl2aspV'

os.makedirs(WORK, exist_ok=True)
os.makedirs(REPLAYS, exist_ok=True)
os.makedirs(EVID, exist_ok=True)


def sh(cmd, timeout=600, cwd=None, env=None, inp=None):
    e = dict(os.environ)
    if env:
        e.update(env)
    p = subprocess.run(cmd, shell=isinstance(cmd, str), cwd=cwd, env=e, input=inp,
                       stdout=subprocess.PIPE, stderr=subprocess.STDOUT, text=True, timeout=timeout)
    return p.returncode, p.stdout


def write_if_changed(path, content):
    try:
        if open(path).read() == content:
            return False
    except FileNotFoundError:
        pass
    os.makedirs(os.path.dirname(path), exist_ok=True)
    with open(path, 'w') as f:
        f.write(content)
    return True


# ---------------------------------------------------------------- Coq side

def coq_str(s):
    """A Coq string literal for an ASCII python string."""
    assert all(ord(c) < 128 for c in s), 'non-ASCII text reaches the Coq model: %r' % s
    out = []
    for c in s:
        if c == '"':
            out.append('""')
        else:
            out.append(c)
    lit = '"' + ''.join(out) + '"'
    if '\n' in s or '\t' in s or '\r' in s:
        # Coq string literals keep raw newlines; keep them (byte-exact)
        pass
    return lit


def coq_list(items):
    return '[' + '; '.join(items) + ']'


def coq_bool(b):
    return 'true' if b else 'false'


def coq_z(n):
    return '(%d)%%Z' % n


def coq_opt(x):
    return 'None' if x is None else '(Some %s)' % x


def ensure_makefile():
    mk = os.path.join(COQ, 'Makefile')
    proj = os.path.join(COQ, '_CoqProject')
    files = []
    for root, _, fs in os.walk(COQ):
        for f in sorted(fs):
            if f.endswith('.v'):
                files.append(os.path.relpath(os.path.join(root, f), COQ))
    files.sort()
    content = '-Q . %s\n' % LOGICAL + '\n'.join(files) + '\n'
    changed = write_if_changed(proj, content)
    if changed or not os.path.exists(mk):
        rc, out = sh('coq_makefile -f _CoqProject -o Makefile', cwd=COQ)
        if rc != 0:
            raise RuntimeError('coq_makefile failed:\n' + out)


def make_target(target, timeout=1500, jobs=16):
    """Build one .vo (with its cone). Returns (ok, log)."""
    ensure_makefile()
    rc, out = sh('timeout %d make -j%d %s TIMED=1' % (timeout, jobs, target), cwd=COQ, timeout=timeout + 30)
    return rc == 0, out


def cone_of(vfile):
    """.v files in the dependency cone of coq/<vfile>, via coqdep."""
    ensure_makefile()
    rc, out = sh('coqdep -Q . %s $(cat _CoqProject | grep "\\.v$")' % LOGICAL, cwd=COQ)
    deps = {}
    for line in out.splitlines():
        if ':' not in line:
            continue
        lhs, rhs = line.split(':', 1)
        tg = [t for t in lhs.split() if t.endswith('.vo')]
        ds = [d[:-1] for d in rhs.split() if d.endswith('.vo')]
        for t in tg:
            deps[t[:-2] + 'v'] = [d for d in ds]
    seen = []

    def go(v):
        if v in seen:
            return
        seen.append(v)
        for d in deps.get(v, []):
            if not d.startswith('/'):
                go(d)
    go(vfile)
    return seen


STMT_RE = re.compile(r'^\s*(Theorem|Lemma|Example|Corollary|Fact|Remark|Proposition)\s+([A-Za-z0-9_\']+)', re.M)
BAD_RE = re.compile(r'\b(Admitted|admit|Axiom|Parameter|Conjecture|Admit Obligations|Unset Guard Checking|'
                    r'bypass_check|Unset Positivity Checking|Unset Universe Checking|type-in-type)\b')


def strip_comments(text):
    out = []
    depth = 0
    i = 0
    while i < len(text):
        if text.startswith('(*', i):
            depth += 1
            i += 2
        elif text.startswith('*)', i) and depth:
            depth -= 1
            i += 2
        else:
            if not depth:
                out.append(text[i])
            i += 1
    return ''.join(out)


def count_statements(vfiles):
    names = []
    bad = []
    for v in vfiles:
        txt = strip_comments(open(os.path.join(COQ, v)).read())
        for m in STMT_RE.finditer(txt):
            names.append(v + ':' + m.group(2))
        # Variable/Hypothesis outside a section is checked coarsely: they may only appear between Section/End
        for m in BAD_RE.finditer(txt):
            bad.append('%s: %s' % (v, m.group(0)))
        depth = 0
        for line in txt.splitlines():
            s = line.strip()
            if re.match(r'Section\s', s):
                depth += 1
            elif re.match(r'End\s', s) and depth:
                depth -= 1
            elif depth == 0 and re.match(r'(Variable|Variables|Hypothesis|Hypotheses|Context)\b', s):
                bad.append('%s: %s outside a section' % (v, s.split()[0]))
    return names, bad


def build_property(pid, extra=()):
    """(Re)build coq/Props/<pid>.vo (+ extra .vo targets used by the correspondence side).
    -> dict(ok, log, obligations, discharged, assumptions, cone, bad)"""
    vfile = 'Props/%s.v' % pid
    t0 = time.time()
    ok, log = make_target(' '.join([vfile + 'o'] + list(extra)))
    cone = cone_of(vfile)
    names, bad = count_statements(cone)
    assumptions = []
    # Print Assumptions output is only produced when the file is (re)compiled; keep a copy beside the .vo
    apath = os.path.join(WORK, 'assumptions_%s.txt' % pid)
    if ok:
        vo = os.path.join(COQ, vfile + 'o')
        stamp = os.path.join(WORK, 'assumptions_%s.stamp' % pid)
        cur = str(os.path.getmtime(vo))
        if not os.path.exists(apath) or not os.path.exists(stamp) or open(stamp).read() != cur:
            rc, out = sh('timeout 900 coqc -Q . %s %s' % (LOGICAL, vfile), cwd=COQ, timeout=930)
            open(apath, 'w').write(out)
            vo_m = str(os.path.getmtime(vo))
            open(stamp, 'w').write(vo_m)
        out = open(apath).read()
        for m in re.finditer(r'^Axioms:\n((?:.+\n)+?)(?=\S|\Z)', out, re.M):
            assumptions.append(m.group(1))
        closed = out.count('Closed under the global context')
    else:
        closed = 0
    failed_file = None
    if not ok:
        m = re.search(r'File "\./([^"]+)", line (\d+)', log)
        if m:
            failed_file = '%s:%s' % (m.group(1), m.group(2))
    # when a theorem no longer checks, the executable model may still build: the search for a failing input needs it
    extra_ok = ok
    if not ok and extra:
        extra_ok, _ = make_target(' '.join(extra))
    return dict(ok=ok, log=log, obligations=len(names), discharged=len(names) if ok else 0,
                names=names, cone=cone, bad=bad, closed=closed, axioms=assumptions,
                failed_at=failed_file, wall=time.time() - t0, extra_ok=extra_ok)


def run_cases(pid, tag, preamble, case_terms, checker, shard=400, timeout=900):
    """Evaluate `checker case` (a Coq bool) for every case inside Coq; return the list of failing indices.

    preamble : Coq text (Require Imports ...)
    case_terms: list of Coq terms (strings)
    checker  : name of a Coq function  case -> bool
    The output is one line `FAILS [i; j; ...]` per shard, computed by vm_compute.
    """
    d = os.path.join(WORK, 'cases', pid)
    os.makedirs(d, exist_ok=True)
    for f in os.listdir(d):
        if f.startswith(tag + '_'):
            os.remove(os.path.join(d, f))
    shards = [case_terms[i:i + shard] for i in range(0, len(case_terms), shard)]
    files = []
    for k, sh_cases in enumerate(shards):
        name = '%s_%d' % (tag, k)
        body = [preamble,
                'Require Import Coq.Lists.List Coq.Strings.String Coq.ZArith.ZArith. Import ListNotations.',
                'Open Scope string_scope.',
                'Definition cases := %s.' % ('[\n' + ';\n'.join(sh_cases) + '\n]'),
                'Fixpoint fails_ {A} (f : A -> bool) (l : list A) (i : nat) : list nat :=',
                '  match l with [] => [] | x :: r => if f x then fails_ f r (S i) else i :: fails_ f r (S i) end.',
                'Definition result := Eval vm_compute in fails_ %s cases 0.' % checker,
                'Print result.']
        p = os.path.join(d, name + '.v')
        open(p, 'w').write('\n'.join(body) + '\n')
        files.append(p)
    if not files:
        return []
    listing = '\n'.join(files)
    rc, out = sh('ulimit -s unlimited 2>/dev/null; xargs -P 8 -I{} sh -c '
                 '\'timeout %d coqc -Q %s %s {} > {}.out 2>&1 || echo COQC-FAILED >> {}.out\'' % (timeout, COQ, LOGICAL),
                 inp=listing, timeout=timeout * (len(files) // 8 + 1) + 60)
    fails = []
    for k, p in enumerate(files):
        o = open(p + '.out').read()
        if 'COQC-FAILED' in o or 'result =' not in o:
            raise RuntimeError('coqc failed on %s:\n%s' % (p, o[-3000:]))
        m = re.search(r'result\s*=\s*(\[[^\]]*\])', o, re.S)
        inner = m.group(1).strip()[1:-1].strip()
        if inner:
            for tok in inner.split(';'):
                fails.append(k * shard + int(tok.strip().replace('%nat', '')))
    return fails


def eval_terms(pid, tag, preamble, terms, timeout=600):
    """Evaluate Coq terms of type string; returns their values (for diagnostics only; small inputs)."""
    d = os.path.join(WORK, 'cases', pid)
    os.makedirs(d, exist_ok=True)
    p = os.path.join(d, tag + '_diag.v')
    body = [preamble, 'Require Import Coq.Lists.List Coq.Strings.String Coq.ZArith.ZArith. Import ListNotations.',
            'Open Scope string_scope.']
    for i, t in enumerate(terms):
        body.append('Definition d%d := Eval vm_compute in (%s).' % (i, t))
        body.append('Print d%d.' % i)
    open(p, 'w').write('\n'.join(body) + '\n')
    rc, out = sh('timeout %d coqc -Q %s %s %s' % (timeout, COQ, LOGICAL, p), timeout=timeout + 30)
    return out


# ---------------------------------------------------------------- findings, violations, evidence

def load_findings(pid):
    p = os.path.join(VERIF, 'KNOWN_FINDINGS.json')
    if not os.path.exists(p):
        return []
    return [f for f in json.load(open(p))['findings'] if f['property'] == pid]


class Report:
    def __init__(self, pid, tier, seed):
        self.pid = pid
        self.tier = tier
        self.seed = seed
        self.t0 = time.time()
        self.violations = []   # (what, replay dict, no_input_found)
        self.known = {}        # finding id -> text
        self.cov = {}
        self.samples = []
        self.assumptions = []
        self.evaluations = 0
        self.distinct = set()
        self.notes = []

    def case(self, key=None, n=1):
        self.evaluations += n
        if key is not None:
            self.distinct.add(hashlib.sha1(repr(key).encode()).hexdigest()[:16])

    def sample(self, s, cap=6):
        if len(self.samples) < cap:
            self.samples.append(s)

    def known_finding(self, fid, text):
        self.known[fid] = text

    def violation(self, what, replay, no_input=False):
        self.violations.append((what, replay, no_input))

    def finish(self, proof=None, rule='', extra=None, level='proof'):
        wall = time.time() - self.t0
        cov = dict(self.cov)
        cov['evaluations'] = self.evaluations
        cov['distinct_nontrivial'] = len(self.distinct)
        cov['rule'] = rule
        cov['samples'] = self.samples or ['(none)']
        if proof is not None:
            cov['obligations'] = proof['obligations']
            cov['discharged'] = proof['discharged']
            cov['checker_cmd'] = 'cd /verif/coq && make Props/%s.vo   # coqc 8.16.1, full .vo build; Print Assumptions in Props/%s.v' % (self.pid, self.pid)
            tb = ['Coq 8.16.1 kernel (coqc, vm_compute used; native_compute not used)',
                  'Print Assumptions: %d theorem(s) "Closed under the global context"; axioms reported: %s'
                  % (proof.get('closed', 0), '; '.join(a.strip().replace('\n', ' ') for a in proof.get('axioms', [])) or 'none'),
                  'translators tools/translate/*.py (Gen/*.v regenerated from /repo on this run)',
                  'correspondence harness tools/harness (CPython 3.12 in /venv, implementation imported from /repo/src)']
            cov['trusted_base'] = tb + list(self.assumptions)
            cov['theorems'] = [n for n in proof.get('names', []) if n.startswith('Props/')]
            cov['cone_files'] = proof.get('cone', [])
            cov['forbidden_tokens_found'] = proof.get('bad', [])
        if extra:
            cov.update(extra)
        cov['known_findings_reproduced'] = sorted(self.known)
        cov['notes'] = self.notes
        ev = dict(property_id=self.pid, tier=self.tier, seed=self.seed, level=level, coverage=cov,
                  assumptions=self.assumptions, wall_s=round(wall, 2), violations=len(self.violations))
        with open(os.path.join(EVID, self.pid + '.json'), 'w') as f:
            json.dump(ev, f, indent=1, default=str)
        for fid, text in sorted(self.known.items()):
            print('KNOWN-FINDING: property=%s %s' % (self.pid, text))
        for f in os.listdir(REPLAYS):
            if f.startswith(self.pid + '_'):
                os.remove(os.path.join(REPLAYS, f))
        if self.violations:
            for i, (what, replay, no_input) in enumerate(self.violations[:5]):
                path = os.path.join(REPLAYS, '%s_%d.json' % (self.pid, i))
                replay = dict(replay)
                replay['property'] = self.pid
                replay['what'] = what
                replay['seed'] = self.seed
                replay['tier'] = self.tier
                with open(path, 'w') as f:
                    json.dump(replay, f, indent=1, default=str)
                print('VIOLATION property=%s replay=%s%s' % (self.pid, path, ' no-failing-input-found' if no_input else ''))
            return 1
        print('OK property=%s tier=%s evaluations=%d distinct=%d wall=%.1fs' % (self.pid, self.tier, self.evaluations, len(self.distinct), wall))
        return 0


def broken_proof_violation(rep, proof, searched_desc):
    """Called when the property's theorem file no longer builds and the search found no failing input."""
    rep.violation('proof obligation no longer checks: %s' % (proof.get('failed_at') or 'see log'),
                  dict(kind='broken-proof', theorem_file='coq/Props/%s.v' % rep.pid, failed_at=proof.get('failed_at'),
                       log_tail=proof['log'][-3000:], searched=searched_desc), no_input=True)
