(* C11 — temporal block headers route rules to the right program part only.
   Cnl/Blocks.v models the grouping of sentences into Problems by the transformer callbacks start / specification /
   PROBLEM_IDENTIFIER and their printing; it is parametric in the rules each sentence produces, so the theorems hold for every
   sentence form.  The header -> part-name table is regenerated from /repo (tabulation of PROBLEM_IDENTIFIER by execution).
   Tie: for generated block-structured specifications the model's text must equal the implementation's byte for byte, the
   per-sentence rules being taken from prefix compilations of the header-free text. *)
Require Import Coq.Strings.String Coq.Lists.List Coq.Bool.Bool.
Require Import Cnl2aspV.Gen.Terminals Cnl2aspV.Cnl.Blocks.
Import ListNotations.
Open Scope string_scope.

Theorem C11_header_table :
  header_name "The following propositions apply in the initial state:" = Some "initial" /\
  header_name "The following propositions always apply except in the initial state:" = Some "dynamic" /\
  header_name "The following propositions always apply:" = Some "always" /\
  header_name "The following propositions apply in the final state:" = Some "final" /\
  length term_PROBLEM_IDENTIFIER = 4.
Proof. vm_compute. repeat split. Qed.
Print Assumptions C11_header_table.

(* every rule is emitted exactly once, in the order of the sentences (leading definitions first, then block by block) *)
Theorem C11_order :
  forall (S : Type) (rules_of : S -> list string) (s : spec S),
    flat_map snd (problems S rules_of s) = rules_all S rules_of (all_sentences S s).
Proof. exact order_preserved. Qed.
Print Assumptions C11_order.

(* the named parts, in order, are exactly the parts named by the headers, in order and with repetition *)
Theorem C11_routing :
  forall (S : Type) (rules_of : S -> list string) (s : spec S), named_parts S rules_of s = header_names S s.
Proof. exact parts_are_headers. Qed.
Print Assumptions C11_routing.

(* deleting all headers changes nothing except that the directives disappear *)
Theorem C11_headers_erasable :
  forall (S : Type) (rules_of : S -> list string) (s : spec S),
    flat_map snd (problems S rules_of (strip_headers S s)) = flat_map snd (problems S rules_of s)
    /\ named_parts S rules_of (strip_headers S s) = [].
Proof. exact headers_erasable. Qed.
Print Assumptions C11_headers_erasable.

(* sentences before any header are under no directive, also when they produce rules (the repaired case) *)
Example C11_leading_definitions :
  problems (list string) (fun x => x)
    {| leading := [["time(0,""1"")." ++ Str.nl]];
       blocks := [ {| b_header := Some "The following propositions apply in the initial state:"; b_sentences := [["node(3)." ++ Str.nl]] |} ] |}
  = [(None, ["time(0,""1"")." ++ Str.nl]); (Some "initial", ["node(3)." ++ Str.nl]); (None, [])].
Proof. vm_compute. reflexivity. Qed.
