"""Core fragment F0 (DESIGN 4.1, the part covered by the compile model Cnl/Core.v): structured specifications, their CNL rendering
and their Coq terms.  Every random choice comes from the random.Random passed in."""
from common import coq_str, coq_list, coq_opt, coq_bool, coq_z

CONCEPTS = ['room', 'tool', 'shelf', 'box', 'item']
KEYS = ['id', 'code']
ENUM = ['red', 'green', 'blue', 'alpha', 'beta']
VERBS = [('store', False, None), ('host', False, None), ('hold', False, None), ('kept', True, 'in'), ('joined', True, 'to'), ('moved', True, 'from'), ('use', False, None)]
NEWPREDS = ['busy', 'marked', 'full', 'ready']
PHRASES = ['the same as', 'different from', 'equal to', 'more than', 'greater than', 'less than', 'greater than or equal to',
           'less than or equal to', 'at least', 'at most', 'not after']


def art(w):
    return 'an' if w[0] in 'aeiou' else 'a'


def gen(rnd, max_dom=3):
    nc = rnd.randint(2, 3)
    names = rnd.sample(CONCEPTS, nc)
    concepts = []
    for n in names:
        if rnd.random() < 0.6:
            lo = rnd.randint(0, 2)
            hi = lo + rnd.randint(0, max_dom - 1)
            dom = ('range', lo, hi)
        else:
            dom = ('enum', rnd.sample(ENUM, rnd.randint(1, max_dom)))
        concepts.append(dict(name=n, key=rnd.choice(KEYS), dom=dom))
    verbs = rnd.sample(VERBS, min(len(VERBS), 3))
    sentences = []
    chosen = []     # (verb, subj, obj) without foreach: usable in clauses
    nch = rnd.randint(1, 2)
    for i in range(nch):
        subj, obj = rnd.sample(names, 2)
        v = verbs[i]
        card = rnd.choice([('none',), ('exactly', rnd.randint(0, 2)), ('atmost', rnd.randint(0, 2)), ('atleast', rnd.randint(0, 2)),
                           ('between', 0, rnd.randint(0, 2)), ('between', 1, rnd.randint(1, 3))])
        fe = None
        others = [n for n in names if n not in (subj, obj)]
        if others and rnd.random() < 0.25:
            fe = others[0]
        lab = rnd.random() < 0.4
        sentences.append(('choice', dict(subj=subj, slabel='X' if lab else None, verb=v, card=card, obj=obj, olabel='Y' if lab else None, foreach=fe,
                                         modal=rnd.choice(['can', 'must']) if card[0] != 'none' else 'can',
                                         # the same choice written 'Whenever there is a c X, then X can/must ...' (same rule when a cardinality is given)
                                         whenever_then=bool(lab and fe is None and card[0] != 'none' and rnd.random() < 0.5))))
        if fe is None:
            chosen.append((v, subj, obj))
    if not chosen:
        return gen(rnd, max_dom)

    def labels_for():
        m = {}
        pool = ['R', 'T', 'S', 'B', 'I', 'U', 'W']

        def lab(c, k=0):
            if (c, k) not in m:
                m[(c, k)] = pool[len(m)]
            return m[(c, k)]
        return lab

    def mk_clause(lab, neg_ok=True):
        v, subj, obj = rnd.choice(chosen)
        return dict(subj=subj, slabel=lab(subj, rnd.choice([0, 0, 0, 1])), neg=neg_ok and rnd.random() < 0.3, verb=v, obj=obj, olabel=lab(obj, 0))
    preds = list(NEWPREDS)
    for _ in range(rnd.choice([0, 1, 1])):
        lab = labels_for()
        v, subj, obj = rnd.choice(chosen)
        first = dict(subj=subj, slabel=lab(subj), neg=False, verb=v, obj=obj, olabel=lab(obj))
        body = [first] + [mk_clause(lab) for _ in range(rnd.choice([0, 0, 1]))]
        np_ = preds.pop(0)
        d = dict(subj=subj, label=first['slabel'], newpred=np_, body=body)
        d['oneof'] = pick_oneof(rnd, concepts, body)
        d['oneof2'] = pick_oneof(rnd, concepts, body, other_than=d['oneof'][0], p=0.5) if d['oneof'] else None
        sentences.append(('def', d))
    for _ in range(rnd.choice([0, 1, 1, 2])):
        lab = labels_for()
        req = rnd.random() < 0.5
        whenpart = [mk_clause(lab) for _ in range(rnd.choice([0, 0, 1]))]
        main = [mk_clause(lab) for _ in range(rnd.choice([1, 1, 2]))]
        # no two clauses with the same atom (the duplicate removal ignores the negation flag): keep the first of each
        if not main:
            continue
        wh = None
        intlabels = []
        for c in whenpart + main:
            for cname, l in ((c['subj'], c['slabel']), (c['obj'], c['olabel'])):
                d = [x for x in concepts if x['name'] == cname][0]['dom']
                if d[0] == 'range' and l not in intlabels:
                    intlabels.append(l)
        if len(intlabels) >= 2 and rnd.random() < 0.4:
            a, b = rnd.sample(intlabels, 2)
            wh = dict(left=a, phrase=rnd.choice(PHRASES), right=b)
        oo = None if wh else pick_oneof(rnd, concepts, whenpart + main)
        oo2 = pick_oneof(rnd, concepts, whenpart + main, other_than=oo[0], p=0.5) if oo else None
        sentences.append(('cons', dict(required=req, whenpart=whenpart, main=main, wh=wh, oneof=oo, oneof2=oo2)))
    # 'It is required/prohibited that there is [not] a <relation> with ...': one named instance of a chosen relation (a single clause, so
    # a requirement negates the clause itself rather than the members of a list)
    plain = [x for x in chosen if not x[0][1] and not x[0][2]]
    for _ in range(rnd.choice([0, 1, 1, 2]) if plain else 0):
        v, subj, obj = rnd.choice(plain)
        vals = []
        for cname in (subj, obj):
            c = [x for x in concepts if x['name'] == cname][0]
            d = c['dom']
            pool = [str(x) for x in range(d[1], d[2] + 2)] if d[0] == 'range' else list(d[1]) + [e for e in ENUM if e not in d[1]][:1]
            vals.append((cname, c['key'], rnd.choice(pool)))
        sentences.append(('there', dict(required=rnd.random() < 0.5, neg=rnd.random() < 0.5, verb=v, subj=vals[0], obj=vals[1], swap=rnd.random() < 0.3)))
    return dict(concepts=concepts, sentences=sentences)


def directed():
    """fixed specifications that every run includes: the shapes a random draw reaches only now and then"""
    host = ('host', False, None)
    cs = [dict(name='room', key='id', dom=('range', 1, 3)), dict(name='shelf', key='code', dom=('range', 1, 2))]
    ch = ('choice', dict(subj='room', slabel=None, verb=host, card=('none',), obj='shelf', olabel=None, foreach=None, modal='can', whenever_then=False))

    def cl(sl, ol, neg=False):
        return dict(subj='room', slabel=sl, neg=neg, verb=host, obj='shelf', olabel=ol)
    out = []
    # the same verb twice, two 'is one of' clauses (cartesian product of the values; each copy keeps both verb atoms)
    out.append(dict(concepts=cs, sentences=[ch, ('cons', dict(required=False, whenpart=[], main=[cl('R', 'S'), cl('T', 'S')], wh=None,
                                                             oneof=('R', [1, 2]), oneof2=('T', [2, 3])))]))
    out.append(dict(concepts=cs, sentences=[ch, ('cons', dict(required=True, whenpart=[cl('R', 'S')], main=[cl('T', 'S')], wh=None,
                                                             oneof=('R', [1]), oneof2=('S', [1, 2])))]))
    out.append(dict(concepts=cs, sentences=[ch, ('def', dict(subj='room', label='R', newpred='busy', body=[cl('R', 'S'), cl('T', 'S', True)],
                                                            oneof=('S', [1, 2]), oneof2=('T', [3, 1])))]))
    # one named instance, required/prohibited x positive/negated
    for req in (False, True):
        for neg in (False, True):
            out.append(dict(concepts=cs, sentences=[ch, ('there', dict(required=req, neg=neg, verb=host, subj=('room', 'id', '2'), obj=('shelf', 'code', '1'),
                                                                      swap=req != neg))]))
    return out


def pick_oneof(rnd, concepts, clauses, other_than=None, p=0.3):
    """(label, values) for ', where L is one of v1, v2' on a label of an integer-valued concept, or None"""
    if rnd.random() > p:
        return None
    cands = []
    for c in clauses:
        for cname, l in ((c['subj'], c['slabel']), (c['obj'], c['olabel'])):
            d = [x for x in concepts if x['name'] == cname][0]['dom']
            if d[0] == 'range' and (l, d) not in cands and l != other_than:
                cands.append((l, d))
    if not cands:
        return None
    l, d = rnd.choice(cands)
    pool = list(range(d[1], d[2] + 2))
    return (l, rnd.sample(pool, min(len(pool), rnd.choice([1, 2, 2]))))


# ------------------------------------------------------------------ rendering
def verb3(v, neg):
    w, cop, prep = v
    if cop:
        s = 'is ' + ('not ' if neg else '') + w
    else:
        s = ('does not ' + w) if neg else (w + 's')
    return s + (' ' + prep if prep else '')


def verb_inf(v):
    w, cop, prep = v
    return ('be ' if cop else '') + w + (' ' + prep if prep else '')


def render_clause(c):
    return '%s %s %s %s %s' % (c['subj'], c['slabel'], verb3(c['verb'], c['neg']), c['obj'], c['olabel'])


def render(spec):
    lines = []
    for c in spec['concepts']:
        lines.append('%s %s is identified by %s %s.' % (art(c['name']).capitalize(), c['name'], art(c['key']), c['key']))
    for c in spec['concepts']:
        if c['dom'][0] == 'range':
            lines.append('%s %s goes from %d to %d.' % (art(c['name']).capitalize(), c['name'], c['dom'][1], c['dom'][2]))
        else:
            lines.append('%s %s is one of %s.' % (art(c['name']).capitalize(), c['name'], ', '.join(c['dom'][1])))
    for kind, s in spec['sentences']:
        if kind == 'choice':
            card = s['card']
            ct = {'none': '', 'exactly': 'exactly %d ', 'atmost': 'at most %d ', 'atleast': 'at least %d ', 'between': 'between %d and %d '}[card[0]]
            ct = ct % tuple(card[1:]) if card[0] != 'none' else ''
            obj = ('%s ' % art(s['obj']) if card[0] == 'none' else '') + s['obj'] + (' ' + s['olabel'] if s['olabel'] else '')
            if s.get('whenever_then'):
                lines.append('Whenever there is %s %s %s, then %s %s %s %s%s.' % (art(s['subj']), s['subj'], s['slabel'], s['slabel'], s['modal'], verb_inf(s['verb']), ct, obj))
            else:
                lines.append('Every %s%s %s %s %s%s%s.' % (s['subj'], ' ' + s['slabel'] if s['slabel'] else '', s['modal'], verb_inf(s['verb']), ct, obj,
                                                        ' for each %s' % s['foreach'] if s['foreach'] else ''))
        elif kind == 'def':
            oo = render_oneof(s)
            lines.append('%s %s %s is %s when %s%s.' % (art(s['subj']).capitalize(), s['subj'], s['label'], s['newpred'], ' and also '.join(render_clause(c) for c in s['body']), oo))
        elif kind == 'there':
            ws = ['with %s %s equal to %s' % x for x in (s['subj'], s['obj'])]
            if s['swap']:
                ws.reverse()
            w, cop, prep = s['verb']
            lines.append('It is %s that there is %s%s %s %s.' % ('required' if s['required'] else 'prohibited', 'not ' if s['neg'] else '',
                                                              art(w), w + (' ' + prep if prep else ''), ', '.join(ws)))
        else:
            head = 'It is %s that ' % ('required' if s['required'] else 'prohibited')
            if s['whenpart']:
                t = 'when %s then %s' % (' and also '.join(render_clause(c) for c in s['whenpart']), ' and also '.join(render_clause(c) for c in s['main']))
            else:
                t = ' and also '.join(render_clause(c) for c in s['main'])
            if s['wh']:
                t += ', where %s is %s %s' % (s['wh']['left'], s['wh']['phrase'], s['wh']['right'])
            t += render_oneof(s)
            lines.append(head + t + '.')
    return '\n'.join(lines) + '\n'


def render_oneof(s):
    if not s.get('oneof'):
        return ''
    t = ', where %s is one of %s' % (s['oneof'][0], ', '.join(str(v) for v in s['oneof'][1]))
    if s.get('oneof2'):
        t += ' and %s is one of %s' % (s['oneof2'][0], ', '.join(str(v) for v in s['oneof2'][1]))
    return t


def wrap_oneof(s, t):
    for k in ('oneof', 'oneof2'):
        if s.get(k):
            t = '(SOneOf %s %s %s)' % (coq_str(s[k][0]), coq_list([coq_z(v) for v in s[k][1]]), t)
    return t


# ------------------------------------------------------------------ Coq terms
def c_verb(v):
    return '{| v_word := %s; v_copula := %s; v_prep := %s |}' % (coq_str(v[0]), coq_bool(v[1]), coq_opt(None if v[2] is None else coq_str(v[2])))


def c_card(c):
    return {'none': 'CNone', 'exactly': '(CExactly %d)', 'atmost': '(CAtMost %d)', 'atleast': '(CAtLeast %d)', 'between': '(CBetween %d %d)'}[c[0]] % tuple(c[1:]) if c[0] != 'none' else 'CNone'


def c_clause(c):
    return '{| cl_subj := %s; cl_slabel := %s; cl_neg := %s; cl_verb := %s; cl_obj := %s; cl_olabel := %s |}' % (
        coq_str(c['subj']), coq_str(c['slabel']), coq_bool(c['neg']), c_verb(c['verb']), coq_str(c['obj']), coq_str(c['olabel']))


def coq_spec(spec):
    cs = []
    for c in spec['concepts']:
        dom = '(DRange %s %s)' % (coq_z(c['dom'][1]), coq_z(c['dom'][2])) if c['dom'][0] == 'range' else '(DEnum %s)' % coq_list([coq_str(v) for v in c['dom'][1]])
        cs.append('{| c_name := %s; c_key := %s; c_dom := %s |}' % (coq_str(c['name']), coq_str(c['key']), dom))
    ss = []
    for kind, s in spec['sentences']:
        if kind == 'choice':
            ss.append('(SChoice {| ch_subj := %s; ch_slabel := %s; ch_verb := %s; ch_card := %s; ch_obj := %s; ch_olabel := %s; ch_foreach := %s |})' % (
                coq_str(s['subj']), coq_opt(None if not s['slabel'] else coq_str(s['slabel'])), c_verb(s['verb']), c_card(s['card']), coq_str(s['obj']),
                coq_opt(None if not s['olabel'] else coq_str(s['olabel'])), coq_opt(None if not s['foreach'] else coq_str(s['foreach']))))
        elif kind == 'def':
            t = '(SDef %s %s %s %s)' % (coq_str(s['subj']), coq_str(s['label']), coq_str(s['newpred']), coq_list([c_clause(c) for c in s['body']]))
            ss.append(wrap_oneof(s, t))
        elif kind == 'there':
            ss.append('(SThere %s %s %s %s %s)' % (coq_bool(s['required']), coq_bool(s['neg']), c_verb(s['verb']), coq_str(s['subj'][2]), coq_str(s['obj'][2])))
        else:
            wh = 'None' if not s['wh'] else '(Some {| w_left := %s; w_phrase := %s; w_right := %s |})' % (coq_str(s['wh']['left']), coq_str(s['wh']['phrase']), coq_str(s['wh']['right']))
            t = '(SCons %s %s %s %s)' % (coq_bool(s['required']), coq_list([c_clause(c) for c in s['whenpart']]), coq_list([c_clause(c) for c in s['main']]), wh)
            ss.append(wrap_oneof(s, t))
    return '{| concepts := %s; sentences := %s |}' % (coq_list(cs), coq_list(ss))
