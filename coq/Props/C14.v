(* C14 — function-term mode prints the same program with foreign keys wrapped.
   Asp/Print.v models ASPAtom.__str__ in both modes (visited attributes tracked by POSITION, as the code does after the
   'fix:' commit recorded in KNOWN_FINDINGS.json); it is tied to /repo by printing every serialised element tree of the
   stream in both modes and comparing byte for byte. *)
Require Import Coq.Strings.String Coq.Lists.List Coq.Bool.Bool.
Require Import Cnl2aspV.Asp.Syntax Cnl2aspV.Asp.Print Cnl2aspV.Asp.PrintProofs.
Import ListNotations.
Open Scope string_scope.

(* an atom none of whose attributes is inherited from another concept is printed identically in both modes:
   nothing is wrapped, dropped, duplicated or reordered (any number of attributes, any values, equal values included) *)
Theorem C14_unwrapped_atoms_unchanged :
  forall a : atom, forallb (own_attr (at_name a)) (at_attrs a) = true -> print_atom true a = print_atom false a.
Proof. exact fn_equals_flat_on_own_attributes. Qed.
Print Assumptions C14_unwrapped_atoms_unchanged.

(* non-vacuity, and the shape fixed by the repair: equal-valued arguments are all kept *)
Example C14_equal_values_kept :
  let n := {| on_name := "node"; on_forms := ["node"; "nodes"; "node"] |} in
  let a := {| at_name := "connected_to";
              at_attrs := [ {| a_name := "id"; a_value := "_"; a_origin := [n] |}; {| a_name := "id"; a_value := "_"; a_origin := [n] |} ];
              at_neg := false; at_before := false; at_after := false; at_initial := false; at_final := false |} in
  print_atom true a = "connected_to(node(_,_))" /\ print_atom false a = "connected_to(_,_)".
Proof. vm_compute. split; reflexivity. Qed.
