(* C04 — preferences optimise the stated quantity, direction and priority.
   Cnl/Preference.v: preference forms, the READING (lexicographic optimality by priority on the stated quantities), the compile model
   (weak constraints) and their semantics. *)
Require Import Coq.ZArith.ZArith Coq.Lists.List Coq.Bool.Bool Coq.Strings.String.
Require Import Cnl2aspV.Gen.Operators Cnl2aspV.Gen.Terminals Cnl2aspV.Asp.Agg Cnl2aspV.Cnl.Aggregate Cnl2aspV.Cnl.Preference Cnl2aspV.Cnl.PreferenceProofs.
Import ListNotations.
Open Scope Z_scope.

(* the levels the grammar's priority words compile to are ordered like the words, and a numeric priority is its own level *)
Theorem C04_levels_ordered :
  (exists l m h, prio_level PLow = Some l /\ prio_level PMedium = Some m /\ prio_level PHigh = Some h /\ l < m < h) /\
  (forall n, prio_level (PNum n) = Some n).
Proof. exact levels_ordered. Qed.
Print Assumptions C04_levels_ordered.

(* 'is minimized' / 'as little as possible' keep the sign of the weight, 'is maximized' negates it *)
Theorem C04_direction_signs :
  dir_neg DMinimized = Some false /\ dir_neg DAsLittle = Some false /\ dir_neg DMaximized = Some true.
Proof. exact direction_signs. Qed.
Print Assumptions C04_direction_signs.

(* KNOWN FINDING (F-C04-as-much-as-possible): the table regenerated from the code gives 'as much as possible' the sign of a minimisation *)
Theorem C04_as_much_as_possible_refuted : dir_neg DAsMuch = Some false.
Proof. exact as_much_refuted. Qed.
Print Assumptions C04_as_much_as_possible_refuted.

(* on an admissible interpretation, the cost the emitted weak constraint contributes at its level is the stated quantity with
   the stated direction - for EVERY preference form (with aggregate: global or per room; with variable; with clause; with
   comparison), every phrase, every priority; 'as much as possible' excluded (refuted above: known finding) *)
Theorem C04_cost_is_quantity :
  forall sp I p w, adm sp I -> NoDup (Aggregate.shelf_ids (world sp)) -> form_ok (pf_form p) = true -> pf_dir p <> DAsMuch ->
    compile_pref p = Some w ->
    w_level w = rank (pf_prio p) /\ Agg.agg_value Agg.ASum (wc_elements sp I w) = Agg.EFin (directed sp I p).
Proof. exact pref_cost. Qed.
Print Assumptions C04_cost_is_quantity.

(* optimality by the emitted weak constraints (gringo/clasp semantics: distinct (weight, tuple) elements summed per level, levels
   compared from the highest down) IS optimality by the READING (lexicographic by priority on the stated quantities): any number of
   rooms and shelves, any candidate space, any number of preferences of any form with pairwise distinct priorities.
   (wf_pspec: shelf ids distinct, priorities pairwise distinct, no 'as much as possible' - the known finding -, no aggregate over
   the weight column, which the sentence forms cannot express.) *)
Theorem C04_optimal :
  forall sp ws space I, wf_pspec sp -> compile_prefs sp = Some ws -> wc_optimal_in sp ws space I = optimal_in sp space I.
Proof. exact wc_optimal_is_reading_optimal. Qed.
Print Assumptions C04_optimal.

(* the hypotheses are satisfiable *)
Example C04_wf_example :
  let sp := {| p_rooms := 2; p_shelves := [(1, 3); (2, 3)]; p_lb := None; p_ub := Some 1%nat;
               p_prefs := [ {| pf_form := PVar Aggregate.KWeight; pf_dir := DMaximized; pf_prio := PHigh; pf_only := [] |};
                            {| pf_form := PAggPerRoom Agg.ASum; pf_dir := DMinimized; pf_prio := PMedium; pf_only := [] |};
                            {| pf_form := PCmp Aggregate.KShelf "greater than" 1; pf_dir := DAsLittle; pf_prio := PLow; pf_only := [] |} ] |} in
  wf_pspec sp /\ exists ws, compile_prefs sp = Some ws.
Proof.
  cbn zeta. split.
  - split; [|split].
    + repeat constructor; cbn; intuition congruence.
    + repeat constructor; cbn; intuition congruence.
    + intros p [<-|[<-|[<-|[]]]]; split; try reflexivity; discriminate.
  - eexists. vm_compute. reflexivity.
Qed.
