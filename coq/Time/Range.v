(* Model of TemporalEntityComponent._compute_values / get_temporal_value_id (entity_component.py),
   of the facts emitted by ASPConverter.convert_temporal_entity, and of parser.temporal_constraint. *)
Require Import Coq.Strings.String Coq.Strings.Ascii Coq.ZArith.ZArith Coq.Lists.List Coq.Bool.Bool Lia.
Require Import Cnl2aspV.Base.Util Cnl2aspV.Base.Str Cnl2aspV.Base.Digits Cnl2aspV.Time.Clock Cnl2aspV.Time.CalendarDef.
Require Import Cnl2aspV.Gen.Operators Cnl2aspV.Gen.Tables Cnl2aspV.Gen.Terminals Cnl2aspV.Asp.CmpSem.
Import ListNotations.
Open Scope string_scope.
Open Scope Z_scope.

Inductive ttype := TTime | TDate | TStep.

(* keys of the `values` dict: printed time / date (str) or the step number (int) *)
Inductive tkey := KStr (s : string) | KInt (z : Z).
Definition tkey_eqb (a b : tkey) : bool :=
  match a, b with KStr x, KStr y => String.eqb x y | KInt x, KInt y => Z.eqb x y | _, _ => false end.

(* positions: TIME = minutes since midnight, DATE = proleptic ordinal, STEP = the integer itself *)
Definition fmt_pos (ty : ttype) (p : Z) : tkey :=
  match ty with TTime => KStr (fmt_time p) | TDate => KStr (fmt_ord p) | TStep => KInt p end.

(* STEP ranges ignore the length (range(int(start)+1, int(end)+1)) *)
Definition eff_len (ty : ttype) (L : Z) : Z := match ty with TStep => 1 | _ => L end.

(* the while loop:  while start <= end: elements[fmt(start)] = counter; counter += 1; start += step *)
Fixpoint loop (fuel : nat) (ty : ttype) (cur e L counter : Z) : list (tkey * Z) :=
  match fuel with
  | O => []
  | S f => if cur <=? e then (fmt_pos ty cur, counter) :: loop f ty (cur + L) e L (counter + 1) else []
  end.

Definition steps_needed (A B L : Z) : nat := Z.to_nat ((B - A) / L) + 1.

Definition compute_values (ty : ttype) (A B L : Z) : list (tkey * Z) :=
  let L' := eff_len ty L in
  (fmt_pos ty A, 0) :: loop (steps_needed A B L') ty (A + L') B L' 1.

Definition closed_form (ty : ttype) (A B L : Z) : list (tkey * Z) :=
  let L' := eff_len ty L in
  map (fun i => (fmt_pos ty (A + Z.of_nat i * L'), Z.of_nat i)) (seq 0 (S (Z.to_nat ((B - A) / L')))).

(* dict.get *)
Definition value_id (vals : list (tkey * Z)) (k : tkey) : option Z := assoc tkey_eqb k vals.

(* the domain in which Python's datetime does what the model says *)
Definition in_domain (ty : ttype) (A B L : Z) : Prop :=
  match ty with
  | TTime => 0 <= A /\ B < 1440
  | TDate => min_fmt_ord <= A /\ B + L <= max_ord
  | TStep => True
  end.
Definition in_domainb (ty : ttype) (A B L : Z) : bool :=
  match ty with
  | TTime => (0 <=? A) && (B <? 1440)
  | TDate => (min_fmt_ord <=? A) && (B + L <=? max_ord)
  | TStep => true
  end.

(* --- text level: the tokens of `temporal_value` --- *)
Inductive tvalue := VTime (h m p : string) | VDate (d m y : string) | VNum (n : string) | VWord (s : string).

Definition parse_pos (ty : ttype) (v : tvalue) : option Z :=
  match ty, v with
  | TTime, VTime h m p => parse_time_fields h m p
  | TDate, VDate d m y => parse_date_fields d m y
  | TStep, VNum n => digits_val n      (* int(start) *)
  | _, _ => None
  end.

Inductive res (A : Type) := Ok (a : A) | Err (msg : string) | Unsupported.
Arguments Ok {A}. Arguments Err {A}. Arguments Unsupported {A}.

Definition parse_len (l : option string) : option Z :=
  match l with None => Some 1 | Some s => digits_val s end.

Definition mismatch (name : string) : string := "type-mismatch:" ++ name.

Definition compute_values_text (name : string) (ty : ttype) (a b : tvalue) (len : option string) : res (list (tkey * Z)) :=
  match parse_pos ty a, parse_pos ty b, parse_len len with
  | Some A, Some B, Some L =>
      if (L <=? 0) && negb (match ty with TStep => true | _ => false end) then Unsupported   (* the code does not terminate *)
      else if in_domainb ty A B L then Ok (compute_values ty A B L) else Unsupported
  | _, _, _ => Err (mismatch name)
  end.

(* --- facts (convert_temporal_entity): name(idx,"value"). in dict order --- *)
Definition key_text (k : tkey) : string := match k with KStr s => s | KInt z => show_Z z end.
Definition fact_text (name : string) (kv : tkey * Z) : string :=
  name ++ "(" ++ show_Z (snd kv) ++ ",""" ++ key_text (fst kv) ++ """)." ++ nl.
Definition facts_text (name : string) (vals : list (tkey * Z)) : string := String.concat "" (map (fact_text name) vals).

(* --- 'is before/after V' (temporal_constraint): reference value as the user wrote it --- *)
Definition ref_key (v : tvalue) : tkey :=
  match v with
  | VTime h m p => KStr (h ++ ":" ++ m ++ " " ++ p)
  | VDate d m y => KStr (d ++ "/" ++ m ++ "/" ++ y)
  | VNum n => match digits_val n with Some z => KInt z | None => KStr n end   (* isnumeric() -> int *)
  | VWord s => KStr s
  end.
Definition ref_text (v : tvalue) : string :=
  match v with VTime h m p => h ++ ":" ++ m ++ " " ++ p | VDate d m y => d ++ "/" ++ m ++ "/" ++ y | VNum n => n | VWord s => s end.

Definition ordering_op (word : string) : option operator :=
  match sassoc word term_ORDERING_OPERATOR with Some (TOp o) => Some o | _ => None end.
Definition ordering_symbol (word : string) : option string :=
  match ordering_op word with Some o => assoc operator_eqb o asp_operators | None => None end.

(* the comparison literal `VAR sym id`, or the rejection message *)
Definition temporal_constraint (name : string) (vals : list (tkey * Z)) (var word : string) (v : tvalue) : res string :=
  match value_id vals (ref_key v) with
  | None => Err ("Value """ ++ ref_text v ++ """ out of """ ++ name ++ """ range")
  | Some j => match ordering_symbol word with
              | Some sym => Ok (var ++ " " ++ sym ++ " " ++ show_Z j)
              | None => Unsupported end
  end.

(* truth of the emitted literal for the point with index i, reference index j *)
Definition ordering_holds (word : string) (i j : Z) : option bool :=
  match ordering_symbol word with Some sym => cmp_sem sym i j | None => None end.
