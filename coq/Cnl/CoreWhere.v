(* Core fragment, a constraint over one quantified clause restricted by a comparison of its labels
   ("It is required/prohibited that c X [does not] <verb> d Y, where X <phrase> Y."): the ground constraints of the compiled rule
   hold in I exactly when the reading holds, for every comparison phrase of the language. *)
Require Import Coq.Strings.String Coq.Lists.List Coq.Bool.Bool Coq.ZArith.ZArith.
Require Import Cnl2aspV.Base.Util Cnl2aspV.Asp.CmpSem Cnl2aspV.Asp.Ground Cnl2aspV.Cnl.Comparison Cnl2aspV.Cnl.ComparisonProofs
               Cnl2aspV.Cnl.Core Cnl2aspV.Cnl.CoreProofs Cnl2aspV.Cnl.CoreDef.
Import ListNotations.
Open Scope string_scope.

(* every comparison phrase: the symbol the compiler prints denotes the comparison the phrase names *)
Definition option_ckind_eqb (a b : option ckind) : bool :=
  match a, b with Some x, Some y => ckind_eqb x y | _, _ => false end.
Definition where_row_ok (ph : string) : bool :=
  match phrase_op ph with
  | Some op => match op_symbol op with Some sym => option_ckind_eqb (kind_of_symbol sym) (named_kind ph) | None => false end
  | None => false end.
Lemma where_table : forallb where_row_ok comparison_phrases = true.
Proof. vm_compute. reflexivity. Qed.

Lemma where_phrase ph : In ph comparison_phrases ->
  exists op sym k, phrase_op ph = Some op /\ op_symbol op = Some sym /\ kind_of_symbol sym = Some k /\
                   forall a b, named_comparison ph a b = Some (ksem k a b).
Proof.
  intros Hin. pose proof where_table as T. rewrite forallb_forall in T. specialize (T ph Hin). unfold where_row_ok in T.
  destruct (phrase_op ph) as [op|] eqn:Eop; [|discriminate]. destruct (op_symbol op) as [sym|] eqn:Esym; [|discriminate].
  destruct (kind_of_symbol sym) as [k|] eqn:Ek; [|discriminate]. destruct (named_kind ph) as [k'|] eqn:En; [|discriminate].
  cbn in T. apply ckind_eqb_eq in T. subst k'. exists op, sym, k. split; [reflexivity|]. split; [exact Esym|]. split; [exact Ek|].
  intros a b. now apply named_kind_sem.
Qed.

Section OneClauseWhere.
  Variables (s : spec) (U : list string) (I : interp) (cl : clause) (required : bool) (w : wherec).
  Let sl := cl_slabel cl.
  Let ol := cl_olabel cl.
  Let S := cl_subj cl.
  Let O := cl_obj cl.
  Hypothesis Hne : sl <> ol.
  Hypothesis Hph : In (w_phrase w) comparison_phrases.
  Hypothesis Hwl : w_left w = sl \/ w_left w = ol.
  Hypothesis Hwr : w_right w = sl \/ w_right w = ol.

  Definition pick (l x y : string) : string := if String.eqb l sl then x else y.
  Definition wcmp (x y : string) : bool :=
    match named_comparison (w_phrase w) 0 0, int_of (pick (w_left w) x y), int_of (pick (w_right w) x y) with
    | Some _, Some a, Some b => match named_comparison (w_phrase w) a b with Some r => r | None => false end
    | _, _, _ => false end.
  Let vtrue (x y : string) : bool := verb_lit_true I cl required x y.

  Lemma pick_lookup l x y : l = sl \/ l = ol -> lookup [(sl, x); (ol, y)] l = pick l x y.
  Proof.
    unfold pick. intros [-> | ->].
    - now rewrite lookup_first, String.eqb_refl.
    - rewrite (lookup_second sl ol x y Hne). assert (E : String.eqb ol sl = false) by (apply String.eqb_neq; congruence). now rewrite E.
  Qed.

  Lemma where_compiled :
    constraints_ok I (flat_map (ground_rule U) (compile_sentence s (SCons required [] [cl] (Some w)))) =
    forallb (fun x => forallb (fun y => negb (holds I (atom_text S [x]) && vtrue x y && holds I (atom_text O [y]) && wcmp x y)) U) U.
  Proof.
    destruct (where_phrase _ Hph) as (op & sym & k & Eop & Esym & Ek & Esem).
    unfold constraints_ok. cbn [compile_sentence flat_map app clause_lits]. rewrite !app_nil_r. fold sl ol S O.
    unfold where_lit. rewrite Eop, Esym.
    assert (Hso : String.eqb sl ol = false) by now apply String.eqb_neq.
    assert (Hos : String.eqb ol sl = false) by (apply String.eqb_neq; congruence).
    set (va := {| na_pred := verb_pred (cl_verb cl); na_args := [TVar sl; TVar ol] |}).
    assert (Hd : dedup_keep_last [BPos (atom1 S sl); if xorb (cl_neg cl) required then BNeg va else BPos va; BPos (atom1 O ol)] =
                 [BPos (atom1 S sl); if xorb (cl_neg cl) required then BNeg va else BPos va; BPos (atom1 O ol)]).
    { destruct (xorb (cl_neg cl) required); subst va; unfold atom1;
        cbn [dedup_keep_last existsb lit_same_atom]; unfold natom_eqb; cbn [na_pred na_args terms_eqb term_eqb];
        rewrite ?Hso, ?andb_false_r; cbn [orb andb]; rewrite ?andb_false_r; reflexivity. }
    rewrite Hd. clear Hd. cbn [app ground_rule].
    assert (Hv : vars_of_body [BPos (atom1 S sl); if xorb (cl_neg cl) required then BNeg va else BPos va; BPos (atom1 O ol);
                               BCmp sym (TVar (w_left w)) (TVar (w_right w))] = [sl; ol]).
    { unfold vars_of_body, atom1. destruct Hwl as [-> | ->], Hwr as [-> | ->]; destruct (xorb (cl_neg cl) required); subst va;
        cbn [fold_left vars_of_lit vars_of_atom na_args atom1 add_var mem_string];
        unfold add_var; repeat (progress (cbn [mem_string app orb fold_left]; rewrite ?String.eqb_refl, ?Hos, ?Hso)); reflexivity. }
    rewrite Hv. clear Hv. cbn [all_substs].
    rewrite forallb_flat_map, forallb_flat_map. apply forallb_ext'. intros x.
    rewrite forallb_map', forallb_flat_map. apply forallb_ext'. intros y.
    cbn [map forallb]. rewrite andb_true_r.
    assert (Ecmp : cmp_holds sym (apply_term [(sl, x); (ol, y)] (TVar (w_left w))) (apply_term [(sl, x); (ol, y)] (TVar (w_right w))) = wcmp x y).
    { unfold wcmp, cmp_holds. cbn [apply_term].
      change (match sassoc (w_left w) [(sl, x); (ol, y)] with Some x0 => x0 | None => w_left w end) with (lookup [(sl, x); (ol, y)] (w_left w)).
      change (match sassoc (w_right w) [(sl, x); (ol, y)] with Some x0 => x0 | None => w_right w end) with (lookup [(sl, x); (ol, y)] (w_right w)).
      rewrite (pick_lookup _ x y Hwl), (pick_lookup _ x y Hwr), Ek, (Esem 0%Z 0%Z).
      destruct (int_of (pick (w_left w) x y)) as [a|]; [|reflexivity]. destruct (int_of (pick (w_right w) x y)) as [b|]; [|reflexivity].
      now rewrite Esem. }
    unfold ground_body. cbn [forallb]. rewrite Ecmp.
    unfold vtrue, verb_lit_true, atom_text.
    destruct (xorb (cl_neg cl) required); subst va; unfold atom1; cbn [andb]; destruct (wcmp x y);
      cbn [forallb flat_map app bounds_ok body_true b_pos b_neg andb]; unfold ground_atom; cbn [na_pred na_args map apply_term];
      unfold sassoc; cbn [assoc]; rewrite ?String.eqb_refl, ?Hos; cbn [xorb];
      try reflexivity; cbn [forallb bounds_ok andb]; unfold Ground.body_true; cbn [b_pos b_neg forallb];
      repeat match goal with |- context [holds I ?a] => destruct (holds I a) end; reflexivity.
  Qed.

  Lemma where_reading :
    r_sentence s I (SCons required [] [cl] (Some w)) =
    negb (existsb (fun x => existsb (fun y => vtrue x y && wcmp x y) (dom_of s O)) (dom_of s S)).
  Proof.
    unfold r_sentence. cbn [r_sentence_ok app forallb]. f_equal.
    assert (Hso : String.eqb sl ol = false) by now apply String.eqb_neq.
    assert (Hl : clause_labels [cl] = [(sl, S); (ol, O)]).
    { unfold clause_labels. cbn [fold_left existsb app fst]. fold sl ol S O. rewrite Hso. cbn [orb]. reflexivity. }
    rewrite Hl. cbn [typed_bindings].
    rewrite existsb_flat_map. apply existsb_ext'. intros x.
    rewrite existsb_map', existsb_flat_map. apply existsb_ext'. intros y.
    cbn [map existsb]. rewrite orb_false_r. cbn [andb]. rewrite andb_true_r.
    unfold where_holds, wcmp. rewrite (pick_lookup _ x y Hwl), (pick_lookup _ x y Hwr).
    unfold clause_holds, vtrue, verb_lit_true. fold sl ol. rewrite lookup_first, (lookup_second sl ol x y Hne). reflexivity.
  Qed.

  Hypothesis HS : forall x, In x U -> holds I (atom_text S [x]) = mem_string x (dom_of s S).
  Hypothesis HO : forall y, In y U -> holds I (atom_text O [y]) = mem_string y (dom_of s O).
  Hypothesis HSU : incl (dom_of s S) U.
  Hypothesis HOU : incl (dom_of s O) U.

  Theorem one_clause_where_correct :
    constraints_ok I (flat_map (ground_rule U) (compile_sentence s (SCons required [] [cl] (Some w)))) =
    r_sentence s I (SCons required [] [cl] (Some w)).
  Proof.
    rewrite where_compiled, where_reading.
    apply Bool.eq_true_iff_eq. rewrite negb_true_iff, forallb_forall. split.
    - intros H. apply not_true_iff_false. intros E. apply existsb_exists in E as (x & Hx & E). apply existsb_exists in E as (y & Hy & E).
      specialize (H x (HSU x Hx)). rewrite forallb_forall in H. specialize (H y (HOU y Hy)).
      rewrite HS, HO in H by auto. apply andb_true_iff in E as (E1 & E2). rewrite E1, E2 in H.
      apply mem_string_In in Hx, Hy. rewrite Hx, Hy in H. discriminate H.
    - intros H x Hx. apply forallb_forall. intros y Hy. apply negb_true_iff. apply not_true_iff_false. intros E.
      apply andb_true_iff in E as (E & E4). apply andb_true_iff in E as (E & E3). apply andb_true_iff in E as (E1 & E2).
      rewrite HS in E1 by assumption. rewrite HO in E3 by assumption. apply mem_string_In in E1, E3.
      apply not_true_iff_false in H. apply H. apply existsb_exists. exists x. split; [assumption|]. apply existsb_exists. exists y.
      split; [assumption|]. now rewrite E2, E4.
  Qed.
End OneClauseWhere.
