"""Corpus of CNL specifications, extracted on every run from the working tree of /repo:
examples/* (inputs without .generated) and every string literal passed as first argument to
check_input_to_output / compute_asp / compute_*_model / get_symbols-style helpers in src/tests/*.py (found with ast),
plus /verif/corpus/regressions/*.cnl."""
import ast
import glob
import os
import textwrap

from common import REPO, VERIF

CALLS = {'check_input_to_output', 'compute_asp', 'compute_clingo_model', 'compute_telingo_model', 'get_symbols', 'Cnl2asp',
         'compute_symbols', 'check_symbols'}


def _str_of(node):
    if isinstance(node, ast.Constant) and isinstance(node.value, str):
        return node.value
    if isinstance(node, ast.Call) and getattr(node.func, 'id', None) == 'dedent' and node.args:
        s = _str_of(node.args[0])
        return None if s is None else textwrap.dedent(s)
    return None


def load(include_examples=True, include_tests=True):
    out = []
    if include_examples:
        for p in sorted(glob.glob(os.path.join(REPO, 'examples', '*')) + glob.glob(os.path.join(REPO, 'examples', 'telingo', '*'))):
            if os.path.isfile(p) and not p.endswith('.generated') and not p.endswith('.md'):
                try:
                    out.append(('examples/' + os.path.relpath(p, os.path.join(REPO, 'examples')), open(p).read()))
                except UnicodeDecodeError:
                    pass
    if include_tests:
        for p in sorted(glob.glob(os.path.join(REPO, 'src', 'tests', '*.py'))):
            tree = ast.parse(open(p).read())
            n = 0
            for node in ast.walk(tree):
                if isinstance(node, ast.Call):
                    name = getattr(node.func, 'attr', None) or getattr(node.func, 'id', None)
                    if name in CALLS and node.args:
                        s = _str_of(node.args[0])
                        if s and ('.' in s) and len(s) > 8:
                            out.append(('%s#%d' % (os.path.basename(p), n), s))
                            n += 1
    for p in sorted(glob.glob(os.path.join(VERIF, 'corpus', 'regressions', '*.cnl'))):
        out.append(('regressions/' + os.path.basename(p), open(p).read()))
    # de-duplicate by text
    seen = set()
    res = []
    for name, text in out:
        if text not in seen:
            seen.add(text)
            res.append((name, text))
    return res
