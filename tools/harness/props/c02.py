"""C02 -- aggregate sentences count, sum and bound what they say."""
import random
import re

import common
import gen_agg
import impl
import solve
from common import Report, coq_str, coq_list, coq_z

PID = 'C02'
PRE = 'Require Import Cnl2aspV.Asp.Agg Cnl2aspV.Cnl.Aggregate Cnl2aspV.Cnl.AggregateCases.\nOpen Scope Z_scope.'
VAR_RE = re.compile(r'(?<![A-Za-z0-9_"])[A-Z][A-Za-z0-9_]*')


def canonical(rule):
    seen = {}

    def sub(m):
        v = m.group(0)
        if v not in seen:
            seen[v] = 'V%d' % len(seen)
        return seen[v]
    return VAR_RE.sub(sub, rule)


def shape(spec):
    c = spec['cmp']
    forms = [spec['agg']['form']] + ([c[2]['form']] if c[0] in ('agg', 'between_agg') else []) + ([c[1]['form'], c[2]['form']] if c[0] == 'between_aggs' else [])
    return dict(cmp=c[0], forms=forms)


def entity_after_labelled_entity(spec):
    """an of-entity aggregate 'host occurrences with <side> id L' that follows, in the sentence, an aggregate which introduces L as the
    label of an ENTITY of that concept ('a room L hosts ...', '... host a shelf L')"""
    c = spec['cmp']
    aggs = [spec['agg']] + [x for x in c[1:] if isinstance(x, dict)]
    for i, a in enumerate(aggs):
        if a['form'] == 'entity' and a['label']:
            for b in aggs[:i]:
                if b['label'] == a['label'] and (b['form'].startswith('passive') or b['form'] == 'active'):
                    return True
    return False


def finding_matches(f, spec):
    t = f.get('trigger', {})
    if t.get('shape') == 'entity-aggregate-after-labelled-entity':
        return entity_after_labelled_entity(spec)
    sh = shape(spec)
    if 'cmp' in t and sh['cmp'] not in t['cmp']:
        return False
    if 'all_forms_in' in t and not all(x in t['all_forms_in'] for x in sh['forms']):
        return False
    if 'min_forms_in' in t:
        need, among = t['min_forms_in']
        if sum(1 for x in sh['forms'] if x in among) < need:
            return False
    if 'required' in t and spec['required'] != t['required']:
        return False
    return True


def run(tier, seed):
    rep = Report(PID, tier, seed)
    rnd = random.Random(seed)
    import translate
    tie_ok, tout = translate.run(['tables'])
    proof = common.build_property(PID, extra=['Cnl/AggregateCases.vo'])
    findings = [f for f in common.load_findings(PID) if f.get('status') == 'known']
    n = 1500 if tier == 'thorough' else 260
    specs = []
    seen = set()
    tries = 0
    while len(specs) < n and tries < 20 * n:
        tries += 1
        s = gen_agg.gen(rnd, big=(tier == 'thorough'))
        t = gen_agg.render(s)
        if t in seen:
            continue
        seen.add(t)
        specs.append(s)
    # directed: the witness shape of every known finding is always part of the run (the finding must still be there, and be reported)
    specs.append(dict(rooms=2, shelves=[(1, 3)], required=False,
                      agg=dict(fn='count', form='passive_shelf', side='room', label='R', dlabel=None, filter=None),
                      cmp=('agg', 'less than', dict(fn='count', form='entity', side='room', label='R', dlabel=None, filter=None)),
                      whenever=[], owhere=None))
    # directed: three aggregates of which the first and the last share their outer label (of equal outer atoms the last one survives)
    for l1, l2, l3 in (('R', 'Q', 'R'), ('R', 'R', 'Q'), ('Q', 'R', 'R')):
        specs.append(dict(rooms=2, shelves=[(1, 2), (2, 2)], required=False,
                          agg=dict(fn='max', form='passive_weight_each', side='room', label=l1, dlabel=None, filter=None),
                          cmp=('between_aggs', dict(fn='count', form='passive_weight', side='room', label=l2, dlabel='D2', filter=('at most', 2)),
                               dict(fn='min', form='passive_weight', side='room', label=l3, dlabel=None, filter=None)),
                          whenever=[], owhere=None))
    texts = [gen_agg.render(s) for s in specs]
    res = impl.compile_many(texts)
    cases, meta = [], []
    dist = dict(fn={}, form={}, cmp={}, required=0, prohibited=0, with_filter=0, bound=0, unbound=0, rejected=0)
    known_hits = {}
    for s, t, r in zip(specs, texts, res):
        rep.case(t)
        for a in [s['agg']] + [x for x in s['cmp'][1:] if isinstance(x, dict)]:
            dist['fn'][a['fn']] = dist['fn'].get(a['fn'], 0) + 1
            dist['form'][a['form']] = dist['form'].get(a['form'], 0) + 1
            dist['with_filter'] += 1 if a['filter'] else 0
            dist['bound' if a['label'] else 'unbound'] += 1
        dist['cmp'][s['cmp'][0]] = dist['cmp'].get(s['cmp'][0], 0) + 1
        dist['required' if s['required'] else 'prohibited'] += 1
        kf = [f for f in findings if finding_matches(f, s)]
        if r[0] != 'ok':
            dist['rejected'] += 1
            if kf:
                known_hits.setdefault(kf[0]['id'], []).append(t.strip().split('\n')[-1])
            else:
                rep.violation('an aggregate constraint of a documented form is not compiled', dict(text=t, result=[str(x) for x in r[:3]]))
            continue
        rule = r[1].strip().split('\n')[-1]
        try:
            models = solve.answer_sets(r[1], limit=0, project={'host'})
        except solve.SolveError as e:
            rep.violation('clingo rejects the compiled program', dict(text=t, program=r[1], error=str(e)[:300]))
            continue
        ms = []
        for m in models:
            ms.append(sorted(tuple(int(x) for x in re.match(r'host\((\d+),(\d+)\)', a).groups()) for a in m))
        cases.append('{| ac_spec := %s; ac_out := %s; ac_models := %s |}' % (
            gen_agg.coq_spec(s), coq_str(canonical(rule)),
            coq_list([coq_list(['(%s, %s)' % (coq_z(a), coq_z(b)) for a, b in m]) for m in ms])))
        meta.append(dict(text=t, rule=rule, canonical_rule=canonical(rule), answer_sets=len(ms), candidates=s['rooms'] * len(s['shelves']),
                         first_answer_sets=ms[:3], known=[f['id'] for f in kf], spec=s))
        rep.evaluations += 2 ** (s['rooms'] * len(s['shelves']))
    rep.sample(meta[0]); rep.sample(meta[len(meta) // 2])
    tie_broken = []
    if not tie_ok:
        tie_broken.append('translator failed closed: ' + tout[-400:])
    kf_idx = []
    if proof['ok'] or proof['extra_ok']:
        kf_idx = [i for i in common.run_cases(PID, 'corr', PRE, cases, 'corr_ok', shard=60) if not meta[i]['known']]     # (a known finding is a difference by definition)
        rf = common.run_cases(PID, 'read', PRE, cases, 'reading_exact', shard=20)
        sf = common.run_cases(PID, 'rule', PRE, cases, 'rule_exact', shard=20)
        nviol = 0
        for i in rf:
            if meta[i]['known']:
                known_hits.setdefault(meta[i]['known'][0], []).append(meta[i]['text'].strip().split('\n')[-1])
                continue
            nviol += 1
            if nviol <= 3:
                rep.violation('the answer sets of the compiled program are not exactly the models in which the aggregate satisfies (required) / fails '
                              '(prohibited) the comparison (exhaustive over all subsets of the candidate instances)', meta[i])
        if kf_idx:
            tie_broken.append('compile model differs from the implementation (modulo variable renaming) on %d specifications, first: %r' % (
                len(kf_idx), {k: meta[kf_idx[0]][k] for k in ('text', 'rule')}))
        only_rule = [i for i in sf if i not in rf and i not in kf_idx and not meta[i]['known']]
        if only_rule:
            tie_broken.append('the semantics given to the emitted rule (Cnl/Aggregate.v rule_violated) disagrees with clingo on %d specifications, first: %r' % (
                len(only_rule), {k: meta[only_rule[0]][k] for k in ('text', 'rule')}))
    if not proof['ok']:
        tie_broken.append('theorem file does not build: %s | %s' % (proof['failed_at'], proof['log'][-300:]))
    if proof['bad']:
        tie_broken.append('forbidden tokens: %r' % proof['bad'])
    for f in findings:
        if f['id'] in known_hits:
            rep.known_finding(f['id'], '%s (%d generated sentences, e.g. %s)' % (f['summary'], len(known_hits[f['id']]), known_hits[f['id']][0]))
    if tie_broken and not rep.violations:
        rep.violation('proof obligation or correspondence no longer checks and no failing input was found: ' + ' | '.join(tie_broken),
                      dict(kind='broken-tie', theorem='Props/C02.v / compile-model correspondence', details=tie_broken,
                           first_differing_input=meta[kf_idx[0]] if kf_idx else None,
                           searched='%d specifications compared exhaustively over all subsets of their candidate instances' % len(cases)), no_input=True)
    elif tie_broken:
        rep.notes.extend(tie_broken)
    rep.cov.update(specifications=len(specs), compared=len(cases), distribution=dist)
    rep.assumptions += ['clingo 5.8.2 enumerates all answer sets (projected on host/2)',
                        'renaming variables by first occurrence preserves the meaning of a rule',
                        'the maximum / minimum of an empty set is #inf / #sup (gringo), i.e. below / above every number']
    return rep.finish(proof, rule='random aggregate constraints over rooms 1..n, shelves (id, weight with repeated weights), free choice host(room, shelf): 4 functions x 7 sentence '
                                  'forms (of-entity, with-parameter x2, active, passive x3) x 11 phrases / between / aggregate-vs-aggregate / between with aggregate bound(s) x both '
                                  'polarities x thresholds 0..n*m+1 x bound or unbound outer variable x optional filter on the counted value; exhaustive over all 2^(n*m) interpretations; distinct by text')
