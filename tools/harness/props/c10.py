"""C10 -- sentences are compiled independently and in order."""
import random
import re

import common
import corpus
import gen_wide
import impl
import translate
from common import Report

PID = 'C10'


def split_sentences(text):
    """sentences of a corpus text (terminated by '.' at the end of a line or before blanks); None if that is not safe"""
    t = re.sub(r'/\*.*?\*/', ' ', text, flags=re.S)
    t = re.sub(r'//[^\n]*', '', t)
    parts = re.split(r'(?<=[\.:])\s*\n', t.strip() + '\n')
    sents = [' '.join(p.split()) for p in parts if p.strip()]
    if not sents or any(not (s.endswith('.') or s.endswith(':')) for s in sents):
        return None
    return sents


def rule_lines(prog):
    return [l for l in prog.split('\n') if l.strip() and not l.startswith('#const')]


def const_lines(prog):
    return [l for l in prog.split('\n') if l.startswith('#const')]


def run(tier, seed):
    rep = Report(PID, tier, seed)
    rnd = random.Random(seed)
    tie_ok, tout = translate.run(['effects'])
    proof = common.build_property(PID)
    specs = []
    for i in range(60 if tier == 'thorough' else 12):
        specs.append(('wide#%d' % i, [s['text'] for s in gen_wide.generate(rnd) if s['kind'] != 'comment']))
    # block-structured specifications (headers, optional temporal concept, definitions before the first header)
    import sys
    sys.path.insert(0, __import__('os').path.dirname(__import__('os').path.abspath(__file__)))
    import c11
    for i in range(30 if tier == 'thorough' else 5):
        lead, blocks = c11.make_spec(rnd)
        ss = list(lead)
        for h, bs in blocks:
            ss += ([h] if h else []) + bs
        specs.append(('blocks#%d' % i, ss))
    corp = corpus.load()
    rnd.shuffle(corp)
    corp = [c for c in corp if c[0].startswith('regressions/c10_')] + [c for c in corp if not c[0].startswith('regressions/c10_')]
    for name, text in corp[:(60 if tier == 'thorough' else 11)]:
        ss = split_sentences(text)
        if ss and 2 <= len(ss) <= 40:
            specs.append((name, ss))
    jobs = []       # (spec index, kind, k, text)
    for si, (name, ss) in enumerate(specs):
        for k in range(len(ss) + 1):
            jobs.append((si, 'prefix', k, '\n'.join(ss[:k]) + '\n'))
        for k in range(len(ss)):
            if ss[k].endswith(':'):
                continue
            jobs.append((si, 'remove', k, '\n'.join(ss[:k] + ss[k + 1:]) + '\n'))
    res = impl.compile_many([j[3] for j in jobs])
    table = {}
    for j, r in zip(jobs, res):
        table[(j[0], j[1], j[2])] = r
    # signature tables (to decide which sentences are removable)
    sym_jobs = [(si, 'full', None, '\n'.join(ss) + '\n') for si, (_, ss) in enumerate(specs)]
    sym_jobs += [(j[0], 'remove', j[2], j[3]) for j in jobs if j[1] == 'remove']
    sres = impl.symbols_many([j[3] for j in sym_jobs])
    stab = {(j[0], j[1], j[2]): r for j, r in zip(sym_jobs, sres)}
    st = dict(prefix_cuts=0, removals_scored=0, removals_not_removable=0, specs_skipped=0)
    for si, (name, ss) in enumerate(specs):
        full = table[(si, 'prefix', len(ss))]
        if full[0] != 'ok':
            st['specs_skipped'] += 1
            continue
        rep.case('\n'.join(ss))
        fl = rule_lines(full[1])
        bad = False
        prefs = []
        for k in range(len(ss) + 1):
            r = table[(si, 'prefix', k)]
            if r[0] != 'ok':
                prefs.append(None)
                continue
            st['prefix_cuts'] += 1
            pl = rule_lines(r[1])
            prefs.append(pl)
            # a prefix that ends right after a header line prints nothing for it: compare rule lines ignoring a trailing directive
            if fl[:len(pl)] != pl:
                rep.violation('compiling the first %d sentences does not give a prefix of the full program' % k,
                              dict(text='\n'.join(ss), cut_after_sentence=k, prefix_program=r[1], full_program=full[1]))
                bad = True
                break
        if bad:
            continue
        for k in range(len(ss)):
            key = (si, 'remove', k)
            if key not in table:
                continue
            r = table[key]
            # a prefix that ends with a block header does not parse (a block needs a sentence): fall back to the prefix before the header(s)
            j = k
            while j > 0 and prefs[j] is None and ss[j - 1].endswith(':'):
                j -= 1
            if r[0] != 'ok' or prefs[j] is None or prefs[k + 1] is None:
                st['removals_not_removable'] += 1
                continue
            # (a constant declared without a value prints no '#const' line and is no symbol, but later sentences read it: 'M = maxDay' / 'M = "maxDay"')
            if stab.get((si, 'full', None)) != stab.get(key) or const_lines(r[1]) != const_lines(full[1]) or re.match(r'^\w+ is a constant\b', ss[k]):
                st['removals_not_removable'] += 1       # the sentence introduces a signature or a constant
                continue
            block = prefs[k + 1][len(prefs[j]):]
            expected = prefs[j] + fl[len(prefs[k + 1]):]
            st['removals_scored'] += 1
            got = rule_lines(r[1])
            # '#program' directives: removing the only sentence of a block makes the block (and its directive) disappear from the grammar's point of view
            if got != expected:
                if [l for l in got if not l.startswith('#program')] == [l for l in expected if not l.startswith('#program')]:
                    continue
                rep.violation('removing sentence %d (which introduces no signature or constant) changes other rules' % (k + 1),
                              dict(text='\n'.join(ss), removed=ss[k], its_rules=block, program_without=r[1], full_program=full[1]))
                break
    rep.sample(dict(name=specs[0][0], sentences=specs[0][1][:6]))
    rep.sample(dict(name=specs[-1][0], sentences=specs[-1][1][:4]))
    tie_broken = []
    if not tie_ok:
        tie_broken.append('translator failed closed: ' + tout[-600:])
    if not proof['ok']:
        tie_broken.append('theorem file does not build (an instance attribute of the transformer/converter is no longer reset after each sentence, or a proof broke): %s | %s'
                          % (proof['failed_at'], proof['log'][-300:]))
    if proof['bad']:
        tie_broken.append('forbidden tokens: %r' % proof['bad'])
    if tie_broken and not rep.violations:
        rep.violation('proof obligation no longer checks and no failing input was found: ' + ' | '.join(tie_broken),
                      dict(kind='broken-tie', theorem='Props/C10.v: C10_no_leak over Gen/Effects.v', details=tie_broken,
                           searched='%d prefix cuts and %d sentence removals over %d specifications' % (st['prefix_cuts'], st['removals_scored'], len(specs))), no_input=True)
    elif tie_broken:
        rep.notes.extend(tie_broken)
    rep.cov.update(specifications=len(specs), compilations=len(jobs), **st)
    rep.assumptions += ['a sentence "introduces no signature or constant" iff get_symbols and the #const lines are unchanged by its removal',
                        'corpus texts are cut at sentence terminators at line ends; texts where that is not safe are skipped']
    return rep.finish(proof, rule='wide-generator and corpus specifications x every sentence boundary (prefix cut) x every removable sentence; distinct by specification')
