(* A tiny exception calculus for control skeletons generated from Python functions (Gen/MainSkeleton.v).
   Exceptions are subclasses of Exception: the two classes main() names, and "any other". *)
Require Import Coq.Strings.String Coq.Lists.List Coq.Bool.Bool Coq.Arith.Arith.
Require Import Cnl2aspV.Base.Util.
Import ListNotations.
Open Scope string_scope.

Inductive exc := EUnexpectedCharacters | EVisitError | EOther.

(* call sites: what may happen there *)
Inductive site_kind :=
| KApi        (* may raise any Exception subclass (Lark, the transformer, the converter, solvers, imports, json) *)
| KThm        (* total by a theorem of the development (ParserError construction) *)
| KAssumed    (* assumed total: stated in the trusted base (Lark's own accessors on the exception object) *)
| KFs         (* file-system / stream operation: not modelled *)
| KTotal.     (* cannot raise: print of values, str(), list(), attribute access *)

Inductive stmt :=
| SCall (id : nat) (name : string) (k : site_kind)
| SOpenOut                                    (* open(args.output_file, "w") *)
| SReturn
| SRaise                                      (* raise Exception(...) *)
| SIf (flag : string) (a b : stmts)
| STry (body : stmts) (hs : handlers)
with stmts := SNil | SCons (s : stmt) (r : stmts)
with handlers := HNil | HCons (cls : string) (body : stmts) (r : handlers).

Inductive outcome := ONormal | OReturn | ORaise (e : exc).

Definition catches (cls : string) (e : exc) : bool :=
  String.eqb cls "Exception" ||
  match e with
  | EUnexpectedCharacters => String.eqb cls "UnexpectedCharacters"
  | EVisitError => String.eqb cls "VisitError"
  | EOther => false end.

Section Exec.
  Variable oracle : nat -> option exc.      (* which API call raises what *)
  Variable flag : string -> bool.           (* value of every test *)

  Fixpoint exec_stmt (s : stmt) (opened : bool) : outcome * bool :=
    match s with
    | SCall id _ KApi => match oracle id with Some e => (ORaise e, opened) | None => (ONormal, opened) end
    | SCall _ _ _ => (ONormal, opened)
    | SOpenOut => (ONormal, true)
    | SReturn => (OReturn, opened)
    | SRaise => (ORaise EOther, opened)
    | SIf f a b => if flag f then exec_stmts a opened else exec_stmts b opened
    | STry body hs =>
        match exec_stmts body opened with
        | (ORaise e, op) => exec_handlers hs e op
        | r => r end
    end
  with exec_stmts (ss : stmts) (opened : bool) : outcome * bool :=
    match ss with
    | SNil => (ONormal, opened)
    | SCons s r => match exec_stmt s opened with
                   | (ONormal, op) => exec_stmts r op
                   | res => res end
    end
  with exec_handlers (hs : handlers) (e : exc) (opened : bool) : outcome * bool :=
    match hs with
    | HNil => (ORaise e, opened)
    | HCons cls body r => if catches cls e then exec_stmts body opened else exec_handlers r e opened
    end.
End Exec.

Definition terminates_normally (r : outcome * bool) : bool :=
  match fst r with ORaise _ => false | _ => true end.
