(* The value of an aggregate depends only on the SET of its tuples; complement laws of the comparison symbols on extended values. *)
Require Import Coq.ZArith.ZArith Coq.Lists.List Coq.Bool.Bool Coq.Sorting.Permutation Lia.
Require Import Cnl2aspV.Asp.CmpSem Cnl2aspV.Asp.Agg.
Import ListNotations.
Open Scope Z_scope.

Ltac ext_crush :=
  unfold ext_max, ext_min, ext_ltb;
  repeat match goal with |- context [Z.ltb ?a ?b] => destruct (Z.ltb_spec a b) end;
  try reflexivity; try (f_equal; lia); try lia.

Lemma ext_max_swap a b c : ext_max a (ext_max b c) = ext_max b (ext_max a c).
Proof. destruct a as [|x|], b as [|y|], c as [|z|]; ext_crush. Qed.
Lemma ext_min_swap a b c : ext_min a (ext_min b c) = ext_min b (ext_min a c).
Proof. destruct a as [|x|], b as [|y|], c as [|z|]; ext_crush. Qed.

Lemma agg_fold_perm f l l' : Permutation l l' -> agg_fold f l = agg_fold f l'.
Proof.
  intros P. destruct f; cbn [agg_fold].
  - now rewrite (Permutation_length P).
  - f_equal. induction P as [|x l1 l2 P IH|x y l1|l1 l2 l3 P1 IH1 P2 IH2]; cbn [fold_right]; try lia.
  - induction P as [|x l1 l2 P IH|x y l1|l1 l2 l3 P1 IH1 P2 IH2]; cbn [fold_right].
    + reflexivity.
    + now rewrite IH.
    + apply ext_max_swap.
    + congruence.
  - induction P as [|x l1 l2 P IH|x y l1|l1 l2 l3 P1 IH1 P2 IH2]; cbn [fold_right].
    + reflexivity.
    + now rewrite IH.
    + apply ext_min_swap.
    + congruence.
Qed.

(* the count / sum / maximum / minimum is taken over the DISTINCT tuples: order and repetitions are irrelevant *)
Theorem agg_value_set f l l' : (forall t, In t l <-> In t l') -> agg_value f l = agg_value f l'.
Proof.
  intros H. unfold agg_value. apply agg_fold_perm. apply NoDup_Permutation.
  - apply NoDup_nodup.
  - apply NoDup_nodup.
  - intros t. rewrite !nodup_In. apply H.
Qed.

Corollary agg_value_dup f t l : agg_value f (t :: t :: l) = agg_value f (t :: l).
Proof. apply agg_value_set. intros u; cbn [In]; tauto. Qed.
Corollary agg_value_app_comm f l1 l2 : agg_value f (l1 ++ l2) = agg_value f (l2 ++ l1).
Proof. apply agg_value_set. intros u. rewrite !in_app_iff. tauto. Qed.

(* what the four functions compute on a duplicate-free list *)
Lemma agg_count_nodup l : NoDup l -> agg_value ACount l = EFin (Z.of_nat (length l)).
Proof. intros H. unfold agg_value. now rewrite (nodup_fixed_point tuple_eq_dec H). Qed.
Lemma agg_sum_nodup l : NoDup l -> agg_value ASum l = EFin (fold_right (fun t acc => weight_of t + acc) 0 l).
Proof. intros H. unfold agg_value. now rewrite (nodup_fixed_point tuple_eq_dec H). Qed.
Ltac ext_full :=
  unfold ext_leb, ext_max, ext_min, ext_ltb, ext_eqb in *;
  repeat match goal with
         | |- context [Z.ltb ?a ?b] => destruct (Z.ltb_spec a b)
         | |- context [Z.eqb ?a ?b] => destruct (Z.eqb_spec a b)
         | H : context [Z.ltb ?a ?b] |- _ => destruct (Z.ltb_spec a b)
         | H : context [Z.eqb ?a ?b] |- _ => destruct (Z.eqb_spec a b)
         end; cbn in *; try reflexivity; try discriminate; try lia.
Lemma ext_leb_max_l a b : ext_leb a (ext_max a b) = true.
Proof. destruct a as [|x|], b as [|y|]; ext_full. Qed.
Lemma ext_leb_max_r a b c : ext_leb c b = true -> ext_leb c (ext_max a b) = true.
Proof. destruct a as [|x|], b as [|y|], c as [|z|]; intros H; ext_full. Qed.
Lemma ext_leb_min_l a b : ext_leb (ext_min a b) a = true.
Proof. destruct a as [|x|], b as [|y|]; ext_full. Qed.
Lemma ext_leb_min_r a b c : ext_leb b c = true -> ext_leb (ext_min a b) c = true.
Proof. destruct a as [|x|], b as [|y|], c as [|z|]; intros H; ext_full. Qed.

Lemma agg_max_spec l : forall t, In t l -> ext_leb (EFin (weight_of t)) (agg_value AMax l) = true.
Proof.
  intros t Ht. unfold agg_value. apply (nodup_In tuple_eq_dec) in Ht. cbn [agg_fold].
  induction (nodup tuple_eq_dec l) as [|x r IH]; [destruct Ht|]. cbn [fold_right]. destruct Ht as [->|Ht].
  - apply ext_leb_max_l.
  - apply ext_leb_max_r. now apply IH.
Qed.
Lemma agg_min_spec l : forall t, In t l -> ext_leb (agg_value AMin l) (EFin (weight_of t)) = true.
Proof.
  intros t Ht. unfold agg_value. apply (nodup_In tuple_eq_dec) in Ht. cbn [agg_fold].
  induction (nodup tuple_eq_dec l) as [|x r IH]; [destruct Ht|]. cbn [fold_right]. destruct Ht as [->|Ht].
  - apply ext_leb_min_l.
  - apply ext_leb_min_r. now apply IH.
Qed.
Lemma agg_max_empty : agg_value AMax [] = EInf. Proof. reflexivity. Qed.
Lemma agg_min_empty : agg_value AMin [] = ESup. Proof. reflexivity. Qed.

(* negated symbol = complement, also at #inf / #sup *)
Lemma ext_eqb_sym a b : ext_eqb a b = ext_eqb b a.
Proof. destruct a, b; cbn; try reflexivity. apply Z.eqb_sym. Qed.
Lemma eksem_kneg k a b : eksem (kneg k) a b = negb (eksem k a b).
Proof.
  destruct k, a as [|x|], b as [|y|]; cbn; try reflexivity; rewrite ?negb_involutive; try reflexivity;
    unfold ext_leb, ext_ltb, ext_eqb;
    repeat match goal with |- context [Z.ltb ?a ?b] => destruct (Z.ltb_spec a b) end;
    repeat match goal with |- context [Z.eqb ?a ?b] => destruct (Z.eqb_spec a b) end; cbn; try reflexivity; lia.
Qed.
Lemma eksem_fin k x y : eksem k (EFin x) (EFin y) = ksem k x y.
Proof.
  destruct k; cbn; try reflexivity; unfold ext_leb, ext_ltb, ext_eqb;
    repeat match goal with |- context [Z.ltb ?a ?b] => destruct (Z.ltb_spec a b) end;
    repeat match goal with |- context [Z.leb ?a ?b] => destruct (Z.leb_spec a b) end;
    repeat match goal with |- context [Z.eqb ?a ?b] => destruct (Z.eqb_spec a b) end; cbn; try reflexivity; lia.
Qed.
